#!/usr/bin/env python3
"""Mechanical, add-only insertion of the step-counter hook into a checkout of asca-rust.

usage: addticks.py <repo dir>      (run once on a tree that has no ticks yet)

After every `loop {` / `while ... {` head outside `#[cfg(test)]` (and every `for` head in
subrule.rs, and the entry of the recursive config functions in cli/seq.rs) it inserts ONE line
    #[cfg(feature = "verif")] <crate>::verif::tick(<site>);
and writes the site table to stdout (site id, file:line of the loop head, text of the head).
No existing line is changed or removed. Site ids are assigned in file order and are what the
monitors use in hang signatures; `hooks/sites.tsv` is the table for the committed hook.
"""
import re, sys, os
repo = sys.argv[1]
LIB = ['src/lexer.rs', 'src/parser.rs', 'src/word.rs', 'src/syll.rs', 'src/subrule.rs',
       'src/alias/lexer.rs', 'src/alias/parser.rs']
BIN = ['src/cli/config/lexer.rs', 'src/cli/config/parser.rs', 'src/cli/seq.rs']
FN_ENTRY = {'src/cli/seq.rs': ['get_all_rules', 'get_orig_alias_into', 'get_orig_words', 'get_words', 'run_sequence']}
site = 0
table = []
for f in LIB + BIN:
    path = os.path.join(repo, f)
    lines = open(path).read().split('\n')
    if any('verif::tick(' in l for l in lines):
        sys.exit(f'{f} already has ticks')
    out = []
    in_tests = False
    krate = 'crate' if f in LIB else 'asca'
    for i, l in enumerate(lines):
        out.append(l)
        if re.match(r'\s*#\[cfg\(test\)\]', l):
            in_tests = True
        if in_tests:
            continue
        s = l.strip()
        hit = re.match(r"^('\w+:\s*)?(loop|while\b.*)\s*\{$", s) is not None
        if f == 'src/subrule.rs' and re.match(r"^('\w+:\s*)?for\b.*\{$", s):
            hit = True
        for fn in FN_ENTRY.get(f, []):
            if re.search(r'\bfn %s\(' % fn, s) and s.endswith('{'):
                hit = True
        if hit:
            site += 1
            ind = re.match(r'\s*', l).group(0) + '    '
            out.append(f'{ind}#[cfg(feature = "verif")] {krate}::verif::tick({site});')
            table.append((site, f, i + 1, s[:70]))
    open(path, 'w').write('\n'.join(out))
for t in table:
    print('%d\t%s:%d\t%s' % t)
print(site, 'sites', file=sys.stderr)
