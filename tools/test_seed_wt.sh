#!/bin/bash
# usage: tools/test_seed_wt.sh <seed-name> <PID> <worktree> [demo-base]
# harvests a sub-agent's seeded change (tools/harvest_seed.sh), then runs the property's quick check against the agent's own
# worktree (VERIF_REPO) - /repo is not touched - and removes the build output of that run.
name="$1"; pid="$2"; wt="$3"
cd /verif
tools/harvest_seed.sh "$name" "$pid" "$wt" ${4:-} 2>&1 | grep -E "^with=|test result" | tr '\n' ' '; echo
python3 - "$name" "$pid" <<'PY'
import json,sys
s,p=sys.argv[1:3]
c=open(f'/verif/seeded/{s}/confirm.txt').read().strip().splitlines()
json.dump({"seed":s,"breaks_property":p,"origin":"independent sub-agent given only the property text (plus a one-sentence hint steering it away from the mechanisms of earlier seeds) and a scratch worktree of /repo","needs_to_manifest":"see SEED_NOTES.md","confirmed":{"how":"tools/harvest_seed.sh in the agent's worktree: cargo test (144 passed) with the change, demo exit code with / without the change","result":c}},open(f'/verif/seeded/{s}/meta.json','w'),indent=1,ensure_ascii=False)
PY
key=$(python3 -c "import hashlib,sys;print('h-'+hashlib.sha1(sys.argv[1].encode()).hexdigest()[:10])" "$wt")
VERIF_REPO="$wt" ./check "$pid" 2>&1 | grep -v "^KNOWN" | tail -5 | cut -c1-230
rm -rf "build/$key" "build/$key-asca" "work/$key"
