#!/usr/bin/env python3
"""prints the markdown table of DESIGN.md §8.9 from evidence/*.json (what the committed runs observed)"""
import json, glob, os
V = os.path.dirname(os.path.dirname(os.path.abspath(__file__)))
print("| id | tier | seed | evaluations | distinct non-trivial | exhaustive | live known findings | new violations | wall s |")
print("|---|---|---|---|---|---|---|---|---|")
for f in sorted(glob.glob(os.path.join(V, "evidence", "C*.json"))):
    e = json.load(open(f)); c = e["coverage"]
    print(f"| {e['property_id']} | {e['tier']} | {e['seed']} | {c['evaluations']:,} | {c['distinct_nontrivial']:,} | {'yes' if c.get('exhaustive') else ''} | {len(c.get('known_findings_live', []))} | {e['violations']} | {e['wall_s']} |")
