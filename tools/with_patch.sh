#!/bin/bash
# usage: tools/with_patch.sh <patch.diff> <command...>
# Applies the patch to /repo's working tree, runs the command from /verif, and ALWAYS reverts the tree.
set -u
patch="$1"; shift
cd /verif
if ! git -C /repo diff --quiet; then echo "/repo working tree is dirty; refusing" >&2; exit 99; fi
git -C /repo apply "$patch" || { echo "patch does not apply" >&2; exit 98; }
trap 'git -C /repo checkout -- . ; git -C /repo clean -fdq -- examples 2>/dev/null' EXIT
"$@"
