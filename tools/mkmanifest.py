#!/usr/bin/env python3
"""Regenerates MANIFEST.json from the table below (run after adding a check)."""
import json, os, subprocess
V = os.path.dirname(os.path.dirname(os.path.abspath(__file__)))

CHECKS = {
 "C19": dict(level="exploration", design="§3 C19",
   text="CLI-vs-library monitor driving the real `asca` binary (built from the working tree) in scratch directories: 480 (quick) / 100 000 (thorough) generated projects serialised per doc-cli.md with cosmetic variation (indentation, blank lines, CRLF, comments, alias sections in either order, group names with non-ASCII letters, `@` and `#`, phrases, alias lines starting with a named escape, short or long flags, output to a file or into a directory); the file written by `asca run -o` and the printed before => after pairs must equal asca::run on the model, `run -j` must agree, `conv asca` must produce the model as JSON, and on round-trip-safe projects `conv json` (explicit and default paths) followed by `conv asca` must reproduce it. Every invocation has stdin closed, a step budget (ASCA_VERIF_BUDGET) and a 20 s watchdog.",
   note="the generator owns the model, so no second parser is needed; round-trip-safe = no blank/comment-only word lines, descriptions start with a non-empty line; a watchdog firing is inconclusive",
   technique="model-driven differential between the binary's files/stdout and the library, plus conversion round trips"),
 "C20": dict(level="exploration", design="§3 C20",
   text="`seq` monitor driving the real binary: 400 (quick) / 80 000 (thorough) generated project trees (config files with comments, multi-line lists, trailing commas, CRLF, `$alias` before or after `%tag`, aliases with romanisers also on piped tags, entries written `x`, `./x`, `x.rsca`, `sub/x`; 1-4 tags in chains and forks, group names incl. non-ASCII cased letters, rule files with `!` and `~` filters incl. several names in non-file order and mixed case, word files, extra words on piped tags, deromaniser alias on a root); out/<tag>/*.wsca written by `asca seq -o -y` and by `-t <tag>` must equal my fold of asca::run over the configured entries, `-i` must leave one numbered file per entry holding the words after that entry; a cyclic or dangling variant of every tree (self-loop, 2- and 3-cycle, cycle outside the requested tag) must exit non-zero within the step budget and write nothing; `conv tag --recurse` exports are run through the library and compared with the tag's file.",
   note="the model of a tag is read off doc-cli.md / seq.rs: parent words, then word files separated by one empty line; each entry applied to the previous stage's rendered words with the tag's own alias; a stage that errors yields no file",
   technique="model-driven differential on the binary's output tree + bounded rejection of cyclic configurations"),
 "C12": dict(level="exploration", design="§3 C12",
   text="Shorthand-vs-expansion monitor: every group letter - bare, and with each of 10 features as an overriding modifier - against the manual's matrix on every single segment the notation can write (8.8 k quick, 370 k thorough), and 40 k (quick) / 20 M (thorough) descriptions, each printed as the shorthand and as its mechanical expansion - condensed comma rules vs the sequence of sub-rules, `_,X` vs `X_ , _X` mirrored, group letters vs the manual's matrices, optionals `(X,M:N)` (with pre- and multi-element post-context, in context or exception) vs the environment set of their repetitions (a third of them aimed at the retry path: broad repeated element, room for more repetitions, a rest that often matches in part), `A B > &` vs `A=1 B=2 > 2 1`, the spellings `(X)` / `(X,1)` / `(X,0:1)` and `(X,N)` / `(X,0:N)` of one optional - applied by the real interpreter to small words over {a k i t} in random syllabifications and to generated words; structural results (hook) must be equal or both fail (460 k applications quick).",
   note="known finding KF-C12-1 (metathesis spellings differ when a long segment is swapped); the group table is copied from doc.md, not from the parser",
   technique="metamorphic (shorthand vs expansion) runtime monitor on the structural hook"),
 "C13": dict(level="exploration", design="§3 C13",
   text="Respelling monitor on the public API: (1) exhaustive over the synonym table - every documented spelling of every feature, node and suprasegmental, plain and letter-spaced, x {input, context, output} x {+,-}, in the rule lexer and the alias lexer, against the canonical spelling on 24 words; (2) 40 k / 10 M generated rules printed plainly and with random documented spelling choices (arrow, `|` or `//`, `*` or `∅`, ellipsis form, bracket form, spaces in matrices, Greek/Latin and renamed alphas, renumbered variables, feature synonyms, trailing comment); (3) 40 k / 10 M words respelled with ' , : ; doubling, ^ or the tie below, and the ASCII input aliases, incl. click clusters. Equal words or errors of the same kind are required.",
   note="upper-case feature names are not tried (a leading capital inside a matrix is alpha syntax); doubling is only used after single-character segments",
   technique="metamorphic (respelling) runtime monitor, exhaustive over the synonym table + generated rules and words"),
 "C14": dict(level="exploration", design="§3 C14",
   text="Tier-projection monitor: 300 k (quick) / 100 M (thorough) rules classified as segment-only (k matchers -> k matrices without length/stress/tone, or k plain ipa) or prosody-only (stress / tone setters, `$ > *`, `* > $` incl. a boundary inserted where one already is, `$X > &`, `X$ > &`), each with a generated context and exception from the full grammar, on generated words; the untouched tier of the hooked result (syllable count, per-syllable segment count, stress, tone - resp. the flat segment sequence) must equal that of the input.",
   note="for ipa outputs per-syllable counts are not compared (documented shortening of long segments)",
   technique="projection-equality runtime monitor on the structural hook"),
 "C15": dict(level="exploration", design="§3 C15",
   text="Alias monitor: 100 k (quick) / 30 M (thorough) cases; romaniser sets (replacement strings with named, code-point and character escapes) (1-5 lines in random order: one or two plain segments or a one-feature matrix > fresh string, `+`string, `*`, optional `$` line) are checked against a reference printer applied to the structural result of the run WITHOUT aliases - which establishes at once that the underlying words are the same and that the printed form is the default rendering rewritten by the table; deromaniser sets (fresh string > X or X:[+long], and fresh string > a sequence of 2-3 segments some of them long or overlong, typed into the word as one item) are checked by encoding the word segment by segment and comparing run(R, encode(w), into=D) with run(R, w).",
   note="`+` lines are judged on base phones only (the program appends to the nearest base phone by design); alias lines the program rejects are counted, not judged",
   technique="reference-printer / encode-decode runtime monitor (structural hook + public API)"),
 "C17": dict(level="fault_enumeration", design="§3 C17",
   text="Fault-injection monitor: 60 (quick) / 12 000 (thorough) valid projects (rule groups with blank and comment lines, a quarter of the groups without any line, words, alias lines with blank lines among them) x a catalogue of 30 rule-syntax faults, 16 rule-runtime faults (each with a word that makes it fire), 15 alias faults and 8 word faults planted at EVERY position in turn, each also on a line that carries precomposed letters which the program rewrites before lexing (52 k runs quick); run must return Err, the matching formatter is called under catch_unwind, and its text is parsed: the named group/line (alias line, word) must be the planted one, the quoted line the planted text, and every caret within [0, chars(line)+1). The errors that 300 generated rules per project run into are formatted and located as well. The evidence lists the error variants reached.",
   note="error texts are only parsed for position, quoted line and caret columns; position-less errors (e.g. DeletionOnlySeg) and empty caret spans are counted, not judged",
   technique="fault injection at every position + offline check of the formatted error against the planted position"),
 "C01": dict(level="exploration", design="§3 C01",
   text="Multi-process differential on the public API: 8 (quick) / 48 (thorough) fresh processes - each with its own hash seed, the run reports how many distinct base-phone table orders they had - evaluate the same ~120 k inputs chosen to hit every tie-break of the renderer (`[] > [±F]` on every k-th base and base+diacritic spelling, the same through `+` romanisers, harvested rules x harvested words, error inputs, printed traces, and 600 / 6000 rules that bind an alpha or variable in one input element and use it in a later one, on lists of short words over a small inventory); the same failing rule text at five different (group, line) positions (whole error values are compared, positions included); the same words without, with one and with another deromaniser list; every second process works through the batches backwards so that processes differ in call history as well as in hash seed; every batch is also run twice in a row, with the words reversed (call by call and as one reversed list), and as one list vs word by word. Any input whose result differs across processes, calls or orders is a violation.",
   note="hash seeds cannot be chosen, only sampled (distinct table orders observed are reported); thread-level concurrency is outside the property",
   technique="multi-process / repeated-call / permutation differential (offline comparison of per-process result logs)"),
 "C10": dict(level="exploration", design="§3 C10",
   text="Staging differential on the public API: for 30 k (quick) / 5 M (thorough) sequences of 2-8 parsable rules (a quarter with blank and comment-only lines among them) x generated words (incl. americanist and alias letters, ASCII shorthands) and for the shipped Indo-European > Proto-Germanic pipeline (82 rules x 57 words), the single run is compared with the two-stage run at every split point with a renderable intermediate (~150 k split points quick) and with 3 random regroupings incl. empty groups; a failure is attributed (americanist input / C08 / C09 / other) so that root causes are not conflated.",
   note="known finding KF-C10-1 (americanist output convention is per input word, lost by staging); intermediate words containing U+FFFD are skipped as the property says",
   technique="metamorphic (staged vs single run, regrouping) runtime monitor with cause attribution"),
 "C09": dict(level="exploration", design="§3 C09",
   text="Round-trip monitor through the hooks: every spelling base + <= 1 diacritic (quick; <= 2 in thorough, ~370 k) that parses to one segment, and the segments one feature / one place node away from them, are rendered and - unless the rendering contains U+FFFD - parsed back and compared as bundles; 150 k (quick) / 30 M (thorough) random words assembled from those segments with every stress / tone / length pattern, equal segments across boundaries and twin pairs (X next to X+diacritic); and 60 k / 10 M outputs of run on generated rules are fed back through the empty rule list and must be fixed points, and the words the rules made are round-tripped as structures too.",
   note="known findings KF-C09-1/2: a stop or nasal next to a click consonant is ambiguous in the notation itself; structural comparison through the hook, public API for the fixed-point part",
   technique="render/parse round-trip runtime monitor (structural hook + public API fixed point)"),
 "C06": dict(level="exploration", design="§3 C06",
   text="Planted-absent-literal monitor: 300 k (quick) / 80 M (thorough) rules from the full-grammar generator (all four rule types, sets, optionals, ellipses, structures, variables, alphas, environment sets, condensed rules) get a reserved segment that no generated word contains planted as a mandatory element of every input alternative (insertion: of the context; a third of the other rules: of every context alternative instead; a third of the plants sit inside a structure); whenever the real interpreter returns Ok the structural word (hook) must equal the input. A third of the words are instantiated from the rule as it was before the plant went in (so that everything but the plant matches), a quarter are built from recurring syllables (so that back-references match), the rest are random. The run also checks that the plant is what stops the rule (the unplanted rule changes the word in ~19 % of the cases, which is what is counted as non-trivial). Blank and comment-only lines are checked too.",
   note="the plant is placed at the top level of the input / context, never inside a set or optional, so it is mandatory by construction; panics and budget exhaustion are recorded for C02, not judged here",
   technique="invariant (output == input) runtime monitor over generated rules with a planted mandatory absent literal"),
 "C07": dict(level="exploration", design="§3 C07",
   text="Capture-identity monitor (200 k quick / 60 M thorough cases): identity rules through variables (`X1=1..Xk=k > 1..k`, k<=3, matrices, groups, [], %, structures, with generated environments; binders in a context are %, `⟨...⟩` or `⟨..⟩` and the recurring syllables carry tones and secondary stress) and through alphas (`[αF] > [αF]` for all features, nodes, length and stress, on matrices, groups and %) must leave the structural word unchanged; variables used in a context are checked against a neighbour-comparison reference: `A > B / X=1 _ 1` fires exactly between identical bundles, `% > [+stress] / %=1 _ 1` exactly between identical syllables, haplology `%=1 > * / 1_` deletes exactly syllables identical to their predecessor, `[αF] [αF]=1 > [±H] 1` changes exactly the first of two neighbours that agree in F (pair-scanning reference).",
   note="known finding KF-C07-1 (stress alpha is one bit); X as a predicate in family (iii) is evaluated with the real matcher on a one-segment word, which C04 validates independently",
   technique="identity / reference-comparison runtime monitor on the structural hook"),
 "C08": dict(level="exploration", design="§3 C08",
   text="Invariant walker on the hooked word after EVERY rule group: 300 k (quick) / 80 M (thorough) sequences of 1-6 rules (templates that delete, move and insert boundaries, syllables and structures, merge tones, remove and add place nodes; harvested rules; full-grammar rules) on generated words, plus every single-feature / single-node setter on every single segment the notation can write (547 k applications); a failing later group does not hide the states reached before it; checks >= 1 syllable, no empty syllable, tone <= 4 non-zero digits, no stray root/laryngeal bits, place never Some(0), no feature bits under an absent sub-node.",
   note="invariants are evaluated on the internal Word through the hook; well-formedness of a place value as in C18",
   technique="structural invariant monitor at a hook after every rule group"),
 "C11": dict(level="exploration", design="§3 C11",
   text="Differential monitor on the public API: for 60 k (quick) / 12 M (thorough) generated (rule list, word list) pairs - the rules as one group or one group each, now and then with a romaniser that prints a vowel as nothing - the result of run on the list is compared with run on every line alone (length, order, content), on a permutation / sub-list, and for multi-word lines with the single-space join of the per-word results; when lines fail, the list must fail with the error kind of the first failing line (parse-phase failures first). About a third of the generated lists contain failing lines.",
   note="public API only; error texts are never compared, only kinds; lists in which rule-syntax and word-syntax failures are mixed are counted, not judged",
   technique="metamorphic (list vs per-line, permutation) runtime monitor over generated workloads"),
 "C16": dict(level="exploration", design="§3 C16",
   text="Sequence-equation monitor on the public API: trace_changes / get_trace_string on 50 k (quick) / 6 M (thorough) generated (rule groups, phrase) pairs (a sixth with a deromaniser list whose strings the phrase uses) are checked against plain runs of every prefix G0..Gi: indices strictly increasing, every reported state equals the prefix run, every changing group is reported, the last state equals run(G), the printed trace shows the same sequence with the groups' names, and both fail when a rule errors.",
   note="public API plus render_word for Change.after; a reported group whose rendering equals the previous one is counted, not judged (the renderer is not injective)",
   technique="trace-vs-prefix-run differential monitor over generated workloads"),
 "C02": dict(level="exploration", design="§3 C02",
   text="Isolation monitor: every call of run / trace_changes / get_trace_string runs in a worker process under catch_unwind and a step budget (tick hook at 115 loop heads) proportional to |words| x |rules|; the worker publishes the index of the case it is about to run so a case that kills the process is identified and the shard restarted (conservation: assigned = completed + killed). Workload = full-grammar rules, token mutants of the 470 harvested rules, numeric extremes, character noise for rules, words and alias lines, degenerate words; what the other properties' monitors generate (their templates, identity rules, shorthands, tier rules, rule lists, planted rules with words instantiated from them); 400 k cases x 2 build profiles (checked = overflow + debug assertions; release) in the quick tier, 30 M x 2 in thorough. Budget exhaustion is retried at 2x (returns = slow, counted, not a violation); exhausted again: rules with ellipses/optionals whose hot tick sites are the backtracking matcher's get 64x (returning = superlinear, a listed finding), every other case has its budget doubled up to 64x while an attempt takes under 3 s (returning = slow, counted) - exhausted to the end = hang. A case on which the published index stands still for the wall-clock watchdog is run again alone: no return within a minute = hang outside the ticked loops (violation), otherwise the run is inconclusive. Listed known-finding signatures are rate-limited (>100 / >20 000 hits = rate-anomaly). A UB check of the checked build that aborts the process is reported as a sanitizer violation. Thorough adds a slice of the workload (incl. every named alias escape, the from_u32_unchecked site) under Miri.",
   note="step budget constants calibrated on the unchanged tree (largest observed ticks/budget ratio is reported); wall-clock only as a watchdog whose firing is inconclusive; panics are keyed by (innermost function of the code under test, message class) from the symbolised backtrace",
   technique="runtime isolation monitor (catch_unwind + step-budget hook + process-death detection) over generated hostile workloads, two build profiles (checked = overflow/debug-assert/UB-check sanitizer build, release), Miri slice in thorough"),
 "C03": dict(level="exploration", design="§3 C03",
   text="Reference-interpreter monitor: 89 100 basic-fragment rules (every input x output x single environment with sides of length <= 1 plus an adjoining boundary, as context-only and as exception-only) and a seeded sample of rules with sides <= 2, context and exception together and environment sets, applied by the real interpreter to every word of <= 3-5 segments over an 8-segment inventory in every syllabification, and compared structurally with a 150-line left-to-right reference written from the manual (24 M applications quick, ~1 G thorough). Cases in which equal segments become adjacent are discarded as the property says.",
   note="oracle = my reference interpreter over raw feature bits (independent of the implementation's matcher); sampled part depends on VERIF_SEED",
   technique="reference-model runtime monitor, bounded-exhaustive rule x word space"),
 "C04": dict(level="exploration", design="§3 C04",
   text="Reference-model monitor over a finite space enumerated completely: every base phone and base+1-diacritic segment (8 819) x 26 features and 5 place nodes x +/- as matcher and as setter, all 26x26x2 feature alpha pairs, node alphas carried from a context segment over one donor per distinct place value, node-to-feature coercion, random multi-feature matrices, a sub-node together with one of its own features (both orders) or removed together with a feature elsewhere, and alphas in multi-segment words incl. two input elements that must agree; the real interpreter's structural result (hook) is compared with a 30-line bit model written from the documented layout. 20 M applications in the quick tier.",
   note="oracle = my bit model of the documented feature layout (independent of to_node_mask); observation through the structural hook; match is observed through `> [+stress]` on a one-segment word",
   technique="reference-model runtime monitor, exhaustive over the finite segment x feature space"),
 "C05": dict(level="exploration", design="§3 C05",
   text="Table-model monitor, exhaustive: 36 suprasegmental states x 404 modifier combinations x {match, set} x 4 element kinds x 3 positions in the syllable (271 k applications), each executed on the real interpreter and compared structurally with a 40-line model of the manual's stress/length/tone tables; contradictory setters must return Err.",
   note="oracle = my reading of doc.md's tables (length: nearest state the modifier allows; stress as tabulated); contradictory matchers may either not match or error",
   technique="reference-table runtime monitor, exhaustive"),
 "C18": dict(level="exploration", design="§3 C18",
   text="Exhaustive runtime evaluation of the get/set/match equations on every one of the 65 537 place values, every sub-node value, every feature and every byte value of the root / manner / laryngeal nodes of the exported Segment/Place API, bit for bit outside the field that is set (124 M setter calls per run); the checked build's UB checks guard the unwrap_unchecked getters in every run (an abort by them is reported as a sanitizer violation) and thorough adds a 12.7 k-evaluation slice under Miri. The space is finite and is enumerated completely, so the only gap is code not reachable through these methods.",
   note="oracle = the equations themselves evaluated on the real methods; well-formedness predicate of a place value is mine (sub-node present bit set iff payload may be non-zero)",
   technique="runtime law checking over the full finite input space (public API), Miri slice in thorough"),
}
NOT_YET = "monitor not built yet in this session (design in DESIGN.md §3); will be claimed when its check exists"

def main():
    props = [json.loads(l) for l in open(os.path.join(V, "properties.jsonl"))]
    hooks = subprocess.run(["git", "-C", "/repo", "log", "--format=%H %s"], capture_output=True, text=True).stdout.splitlines()
    hook_commits = [l.split()[0] for l in hooks if "verif hooks" in l]
    m = {
      "version": 1,
      "setup_cmd": "./check --setup",
      "hooks": {
        "guard": "cargo feature `verif` (cfg(feature = \"verif\")), off by default",
        "enable": "harness depends on asca with features=[\"verif\"]; binary built with `cargo build --features verif`",
        "baseline_off_cmd": "cd /repo && cargo test --workspace --no-fail-fast --offline",
        "source_commits": hook_commits,
        "add_only": True,
      },
      "engines": [
        {"name": "vharness", "path": "harness/", "serves_properties": sorted(CHECKS), "kind_free_text": "Rust harness linking the tree under test with the `verif` hooks: workload generators, reference models, monitors, case isolation (catch_unwind + step budget)"},
        {"name": "check", "path": "check", "serves_properties": sorted(CHECKS), "kind_free_text": "python3 orchestrator: rebuilds from the working tree, runs the harness under a watchdog, replays known-finding witnesses, writes evidence, prints VIOLATION / KNOWN-FINDING lines"},
      ],
      "checks": [],
      "not_applicable": [],
      "notes": "Technique family: runtime monitoring. exit 0 held / 1 VIOLATION / 2 INCONCLUSIVE. Known findings: known_findings.json.",
    }
    for p in props:
        pid = p["id"]
        if pid in CHECKS:
            c = CHECKS[pid]
            m["checks"].append({
              "property_id": pid,
              "quick_cmd": f"./check {pid} --tier quick",
              "thorough_cmd": f"./check {pid} --tier thorough",
              "evidence_file": f"/verif/evidence/{pid}.json",
              "replay_cmd_template": f"./check {pid} --replay {{path}}",
              "engine": "vharness",
              "level_claimed": {"category": c["level"], "text": c["text"], "design_ref": c["design"]},
              "level_note": c["note"],
              "technique": c["technique"],
            })
        else:
            m["not_applicable"].append({"property_id": pid, "reason": NOT_YET})
    json.dump(m, open(os.path.join(V, "MANIFEST.json"), "w"), indent=1, ensure_ascii=False)
    print("MANIFEST.json:", len(m["checks"]), "checks,", len(m["not_applicable"]), "not claimed")

main()
