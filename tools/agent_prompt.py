#!/usr/bin/env python3
"""prints the prompt for a seeding sub-agent: tools/agent_prompt.py C03 /tmp/wt-C03 [variant-hint]"""
import json, sys
pid, wt = sys.argv[1], sys.argv[2]
hint = sys.argv[3] if len(sys.argv) > 3 else ""
p = [json.loads(l) for l in open('/verif/properties.jsonl') if json.loads(l)['id'] == pid][0]
print(f"""You are helping to test a verification effort by planting a realistic bug.

You have your own scratch git worktree of the Rust project Girv98/asca-rust (ASCA, a linguistic sound change applier: a DSL lexer, parser and rule interpreter that rewrites IPA words) at {wt}. Work ONLY inside {wt}. Do not read or touch /repo, /verif or any other checkout. There is no network; `cargo build --offline` / `cargo test --offline` work. Use `CARGO_TARGET_DIR={wt}/target`.

Here is a semantic property the project is supposed to satisfy:

  id: {pid}
  title: {p['title']}
  statement: {p['statement']}
  quantifier: {p['quantifier']['text']}

Your task: make a small, realistic source change to the project (the kind of slip a maintainer could make in a refactor or a 'harmless' optimisation — not sabotage that is obvious at a glance) that BREAKS this property, while
  (a) the project still compiles (with and without `--features verif`), and
  (b) the existing test suite still passes: `cd {wt} && cargo test --workspace --no-fail-fast --offline` must report 144 passed, 0 failed.
The break must need something specific to manifest — a particular unusual input, a multi-step sequence, a particular combination of features, or two cooperating sites that each look fine alone — not something that ordinary use would expose at once. {hint}
Do not modify tests, do not touch src/verif.rs or the `#[cfg(feature = "verif")]` tick lines, and do not edit Cargo.toml/Cargo.lock.

Deliver, inside {wt}:
  1. the source change itself, left UNCOMMITTED in the working tree (so `git -C {wt} diff` shows exactly your change);
  2. a demonstration that fails with your change and passes without it: preferably a small Rust program at {wt}/examples/demo_{pid.lower()}.rs using the public API (`asca::run(&[asca::RuleGroup::from_rules(vec![..])], &[words], &[], &[])`, `asca::trace_changes`, `asca::Segment`/`asca::Place` …) that exits 0 when the property holds on its input and exits 1 (printing what differed) when it does not — or, for CLI properties, a shell script {wt}/demo_{pid.lower()}.sh doing the same with the built `asca` binary. Verify both directions yourself: run it with your change (must fail) and without it (must pass) — take the change out with `git diff > /tmp/{pid}.patch; git apply -R /tmp/{pid}.patch` and put it back with `git apply /tmp/{pid}.patch`; do NOT use `git stash` (the stash is shared with other worktrees of this repository).
  3. a short file {wt}/SEED_NOTES.md: what you changed and why it looks plausible, what exactly is needed for it to manifest, the exact commands you ran and their outcome.
Files 2 and 3 are untracked files; that is fine. Finish with a brief summary of the same. Keep the change minimal (typically 1–10 lines).""")
