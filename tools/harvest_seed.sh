#!/bin/bash
# usage: tools/harvest_seed.sh <seed-name> <PID> <worktree>
# Confirms a sub-agent's seeded change in its own worktree (tests pass, demo fails with / passes without),
# then stores patch.diff + demonstration + notes under /verif/seeded/<seed-name>/ and removes nothing.
set -u
name="$1"; pid="$2"; wt="$3"
out=/verif/seeded/$name; mkdir -p "$out"
cd "$wt" || exit 1
export CARGO_TARGET_DIR="$wt/target" CARGO_NET_OFFLINE=true
git diff > "$out/patch.diff"
[ -s "$out/patch.diff" ] || { echo "empty patch"; exit 1; }
lc=${4:-$(echo "$pid" | tr 'A-Z' 'a-z')}
demo=""; kind=""
if [ -f "examples/demo_$lc.rs" ]; then demo="examples/demo_$lc.rs"; kind=rs; cp "$demo" "$out/"; fi
if [ -f "demo_$lc.sh" ]; then demo="demo_$lc.sh"; kind=sh; cp "$demo" "$out/"; fi
[ -f SEED_NOTES.md ] && cp SEED_NOTES.md "$out/"
rundemo() { if [ "$kind" = rs ]; then cargo run -q --offline --example "demo_$lc" >/tmp/demo_out.$$ 2>&1; else cargo build -q --offline 2>/dev/null; bash "$demo" >/tmp/demo_out.$$ 2>&1; fi; }
echo "== tests with change"; t=$(cargo test --workspace --no-fail-fast --offline 2>&1 | grep -E "^test result" | head -1); echo "$t"
cargo build -q --offline --features verif 2>&1 | tail -2
echo "== demo with change (expect non-zero)"; rundemo; with=$?; tail -3 /tmp/demo_out.$$
# (not `git stash`: the stash is shared by all worktrees of a repository)
git apply -R "$out/patch.diff"
echo "== demo without change (expect 0)"; rundemo; without=$?; tail -2 /tmp/demo_out.$$
git apply "$out/patch.diff"
rm -f /tmp/demo_out.$$
echo "with=$with without=$without"
cat > "$out/confirm.txt" <<EOT
tests_with_change: $t
demo_exit_with_change: $with
demo_exit_without_change: $without
EOT
