//! vharness – runtime monitors for the properties C01..C20 of asca-rust.
//!
//!   vharness <ID> explore --tier quick|thorough --seed N --threads N --out FILE [--proc i/n]
//!   vharness <ID> replay  --cases FILE --out FILE      (FILE = JSON list of cases; one report per case)
//!
//! The orchestrator (`../check`) builds this crate against the tree under test, runs it,
//! matches violations against known_findings.json and writes the evidence file.
mod util; mod isol; mod sw; mod report; mod run; mod gen; mod drive; mod proj; mod cli;
mod c01; mod c02; mod c03; mod c04; mod c05; mod c06; mod c07; mod c08; mod c09; mod c10; mod c11; mod c12; mod c13; mod c14; mod c15; mod c16; mod c17; mod c18; mod c19; mod c20;

use report::Report;
use serde_json::{json, Value};

#[derive(Clone, Copy, PartialEq, Debug)]
pub enum Tier { Quick, Thorough }

#[derive(Clone)]
pub struct Ctx {
    pub tier: Tier,
    pub seed: u64,
    pub threads: usize,
    /// process-level shard (index, count) – used by the multi-process checks
    pub proc: (usize, usize),
    pub repo: String,
    pub args: Vec<String>,
}

impl Ctx {
    pub fn quick(&self) -> bool { self.tier == Tier::Quick }
    /// `q` in the quick tier, `t` in the thorough tier
    pub fn pick(&self, q: u64, t: u64) -> u64 { if self.quick() { q } else { t } }
    pub fn arg(&self, name: &str) -> Option<String> {
        self.args.iter().position(|a| a == name).and_then(|i| self.args.get(i + 1).cloned())
    }
}

type Explore = fn(&Ctx, usize, usize) -> Report;
type Replay = fn(&Ctx, &Value) -> Report;

fn registry(id: &str) -> Option<(Explore, Replay)> {
    Some(match id {
        "C01" => (c01::explore, c01::replay),
        "C02" => (c02::explore, c02::replay),
        "C03" => (c03::explore, c03::replay),
        "C04" => (c04::explore, c04::replay),
        "C05" => (c05::explore, c05::replay),
        "C06" => (c06::explore, c06::replay),
        "C07" => (c07::explore, c07::replay),
        "C08" => (c08::explore, c08::replay),
        "C09" => (c09::explore, c09::replay),
        "C10" => (c10::explore, c10::replay),
        "C11" => (c11::explore, c11::replay),
        "C12" => (c12::explore, c12::replay),
        "C13" => (c13::explore, c13::replay),
        "C14" => (c14::explore, c14::replay),
        "C15" => (c15::explore, c15::replay),
        "C16" => (c16::explore, c16::replay),
        "C17" => (c17::explore, c17::replay),
        "C18" => (c18::explore, c18::replay),
        "C19" => (c19::explore, c19::replay),
        "C20" => (c20::explore, c20::replay),
        _ => return None,
    })
}

fn main() {
    let args: Vec<String> = std::env::args().collect();
    if args.len() < 3 { eprintln!("usage: vharness <ID> explore|replay …"); std::process::exit(64); }
    let id = args[1].clone();
    let mode = args[2].clone();
    let get = |name: &str| args.iter().position(|a| a == name).and_then(|i| args.get(i + 1).cloned());
    let tier = match get("--tier").as_deref() { Some("thorough") => Tier::Thorough, _ => Tier::Quick };
    let seed: u64 = get("--seed").and_then(|s| s.parse().ok()).unwrap_or(1);
    let threads: usize = get("--threads").and_then(|s| s.parse().ok()).unwrap_or(16).max(1);
    let proc = get("--proc").and_then(|s| { let mut p = s.split('/'); Some((p.next()?.parse().ok()?, p.next()?.parse().ok()?)) }).unwrap_or((0, 1));
    let repo = std::env::var("VERIF_REPO").unwrap_or_else(|_| "/repo".into());
    let out = get("--out");
    let ctx = Ctx { tier, seed, threads, proc, repo, args: args.clone() };
    let Some((explore, replay)) = registry(&id) else { eprintln!("unknown property {id}"); std::process::exit(64); };
    isol::install_hook();
    let t0 = std::time::Instant::now();

    let result: Value = match mode.as_str() {
        "explore" => {
            let mut total = Report::default();
            let n = ctx.threads;
            let reports: Vec<Report> = std::thread::scope(|s| {
                let hs: Vec<_> = (0..n).map(|i| { let c = &ctx; std::thread::Builder::new().stack_size(64 << 20).spawn_scoped(s, move || explore(c, i, n)).unwrap() }).collect();
                hs.into_iter().map(|h| h.join().unwrap_or_else(|_| { let mut r = Report::default(); r.notes.push("worker thread died outside a guarded case".into()); r.obs("worker_died", 1); r })).collect()
            });
            for r in reports { total.merge(r); }
            let mut v = total.to_json();
            v["property"] = json!(id); v["tier"] = json!(if ctx.quick() { "quick" } else { "thorough" }); v["seed"] = json!(seed);
            v["wall_s"] = json!(t0.elapsed().as_secs_f64());
            if !args.iter().any(|a| a == "--miri-slice") { v["table_order_fingerprint"] = json!(format!("{:016x}", asca::verif::table_order_fingerprint())); }
            v
        }
        "replay" if get("--c01-one").is_some() => { let _ = replay(&ctx, &Value::Null); return }
        "replay" => {
            let path = get("--cases").expect("--cases FILE");
            let cases: Value = serde_json::from_str(&std::fs::read_to_string(&path).expect("cases file")).expect("cases json");
            let list = cases.as_array().cloned().unwrap_or_else(|| vec![cases.clone()]);
            let res: Vec<Value> = list.iter().map(|c| { let mut r = replay(&ctx, c).to_json(); r["case"] = c.clone(); r }).collect();
            json!({"property": id, "replays": res})
        }
        _ => { eprintln!("unknown mode {mode}"); std::process::exit(64); }
    };
    let text = serde_json::to_string(&result).unwrap();
    match out { Some(p) => std::fs::write(p, text).expect("write --out"), None => println!("{text}") }
}
