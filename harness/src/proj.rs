//! Readers for the CLI's file formats as documented in doc/doc-cli.md (independent of src/cli/parse.rs),
//! used to load the shipped example project and by the CLI monitors.
use asca::RuleGroup;

/// `.rsca`: `@ name` starts a group, indented lines are its rules, `#` lines its description.
pub fn read_rsca(text: &str) -> Vec<RuleGroup> {
    let mut out: Vec<RuleGroup> = Vec::new();
    let mut cur: Option<RuleGroup> = None;
    for line in text.lines() {
        let l = line.trim();
        if let Some(name) = l.strip_prefix('@') {
            if let Some(g) = cur.take() { out.push(g) }
            cur = Some(RuleGroup::from(name.trim().to_string(), vec![], String::new()));
        } else if let Some(d) = l.strip_prefix('#') {
            if let Some(g) = cur.as_mut() { if !g.description.is_empty() { g.description.push('\n') } g.description += d.trim(); }
        } else if !l.is_empty() {
            match cur.as_mut() {
                Some(g) if g.description.is_empty() => g.rule.push(l.to_string()),
                _ => { if let Some(g) = cur.take() { out.push(g) } cur = Some(RuleGroup::from(String::new(), vec![l.to_string()], String::new())); }
            }
        }
    }
    if let Some(g) = cur { out.push(g) }
    out
}

/// `.wsca`: one word per line, `#` starts a comment
pub fn read_wsca(text: &str) -> Vec<String> { text.lines().map(|l| l.split('#').next().unwrap_or("").trim().to_string()).collect() }

/// `.alias`: `@into` and `@from` sections
pub fn read_alias(text: &str) -> (Vec<String>, Vec<String>) {
    let (mut into, mut from) = (Vec::new(), Vec::new());
    let mut state = 0;
    for line in text.lines() {
        let l = line.trim();
        if l.starts_with("@into") { state = 1; continue }
        if l.starts_with("@from") { state = 2; continue }
        if l.starts_with('#') { continue }
        match state { 1 => into.push(l.to_string()), 2 => from.push(l.to_string()), _ => {} }
    }
    (into, from)
}

pub struct Shipped { pub into: Vec<String>, pub words: Vec<String>, pub groups: Vec<RuleGroup> }

/// the shipped Indo-European > Proto-Germanic pipeline: lexicon, deromaniser and the rule files in order
pub fn shipped_germanic(repo: &str) -> Option<Shipped> {
    let base = format!("{repo}/examples/indo-european");
    let rd = |p: &str| std::fs::read_to_string(format!("{base}/{p}")).ok();
    let (into, _) = read_alias(&rd("pie.alias")?);
    let mut words = read_wsca(&rd("pie-uvular-common.wsca")?);
    words.extend(read_wsca(&rd("pie-pronouns.wsca")?));
    words.retain(|w| !w.is_empty());
    let mut groups = Vec::new();
    for f in ["germanic/setup.rsca", "germanic/pgmc/pre.rsca", "germanic/pgmc/early.rsca", "germanic/pgmc/late.rsca"] { groups.extend(read_rsca(&rd(f)?)); }
    Some(Shipped { into, words, groups })
}
