//! C14 – segmental and suprasegmental changes do not leak into each other (tier projection on the hooked word).
use crate::gen::*;
use crate::{drive, report::Report, run::*, sw, util::*, Ctx};
use asca::verif::Word;
use serde_json::{json, Value};

const RULE: &str = "rules classified on the AST as segment-only (input = 1-2 segment-matching elements - ipa, group, matrix, set, [] with any input modifiers -, output = the same number of matrices without length/stress/tone, or of plain ipa segments) or prosody-only (stress / secondary stress / tone setters on % or on segments; `$ > *`, `* > $`, `$X > &`, `X$ > &`), each with a generated context and exception from the full grammar, x generated words with every stress/tone pattern: whenever the call returns Ok, the untouched tier of the result must equal that tier of the input (segment-only: syllable count, per-syllable segment count, stress, tone; per-syllable counts are not compared for ipa outputs, which the manual documents as shortening long segments - also ones an earlier pass of the same rule created; prosody-only: the flattened segment sequence). Non-trivial = the rule changed the word; distinct = distinct (rule, word).";

const SEG_IN: [&str; 16] = ["a", "i", "t", "s", "V", "C", "[+voice]", "[-cont]", "{p,t,k}", "O", "N", "[]", "V:[+long]", "C:[+stress]", "{V,n}", "[+son, tone:51]"];
const SEG_OUT_M: [&str; 12] = ["[+voice]", "[-voice]", "[+nasal]", "[+hi, -lo]", "[-round]", "[+round]", "[-place]", "[+cont, -delrel]", "[-lab]", "[+dor]", "[Avoice]", "[+lat, +approx]"];
const SEG_OUT_I: [&str; 6] = ["e", "o", "x", "m", "ʔ", "t͡s"];
const PROS: [&str; 30] = ["% > [+stress]", "%:[+stress] > [-stress]", "% > [tone: 35]", "V > [+stress]", "C > [+sec.stress] / _#", "V:[+long] > [tone: 5]", "$ > * / V_V", "$ > *", "* > $ / V_CV", "* > $ / VC_CV", "$C > & / _#", "$C > &", "C$ > &", "V$ > & / _C",
    "% > [-stress, tone: 0] / _%", "%:[tone: 51] > [tone: 15]", "V > [-sec.stress]", "⟨...V⟩ > [+stress] / _%#", "% > [+sec.stress] / %:[+stress]_", "[+nasal] > [tone: 3]", "* > $ / _C#", "$ > * / _C",
    // a boundary inserted where one already is (an empty half is left behind and has to be cleaned up), and with a generated environment
    "* > $", "* > $ / C_$", "* > $ / V_$", "* > $ / $_", "* > $ / _$", "* > $ / $_V", "* > $ / #_", "* > $ / _#"];

pub struct Case { pub class: String, pub rule: String, pub word: String }

fn envs(r: &mut Rng) -> String {
    let cfg = RuleCfg { vars: false, ..RuleCfg::default() };
    let mut g = RuleGen::new(r, cfg);
    let sp = Spelling::default();
    let mut s = String::new();
    match g.env_block(false, true) { EnvBlock::None => {}, b => { let t = sp.rule(&Rule { input: vec![], output: vec![], ctx: b, exc: EnvBlock::None }); s += t.trim_start_matches(|c| c != '/'); } }
    if g.r.chance(1, 4) { s += &format!(" | {}", sp.env(&g.env_nonempty())); }
    s
}

pub(crate) fn gen(r: &mut Rng) -> Case {
    let mut word = rand_word(r, &WordCfg { max_sylls: 5, ..WordCfg::default() });
    // now and then a run longer than overlong (four or five copies - what two long vowels leave when a boundary between them goes)
    if r.chance(1, 8) { word = word.replacen('ː', if r.chance(1, 2) { "ːːː" } else { "ːːːː" }, 1); }
    // and now and then the same vowel on both sides of a boundary, the right one long or overlong (seed C14-f: the run that `$ > *`
    // leaves must keep every copy)
    if r.chance(1, 8) {
        let cs: Vec<(usize, char)> = word.char_indices().collect();
        if let Some(k) = (1..cs.len().saturating_sub(1)).find(|&k| cs[k].1 == '.' && !cs[k - 1].1.is_ascii_digit() && cs[k - 1].1 != 'ː' && !matches!(cs[k + 1].1, 'ˈ' | 'ˌ')) {
            let v = *r.pick(&["a", "i", "u"][..]);
            let ins = format!("{v}.{v}{}", if r.chance(1, 2) { "ːː" } else { "ː" });
            word.replace_range(cs[k].0..cs[k].0 + 1, &ins);
        }
    }
    if r.chance(3, 5) {
        let k = r.range(1, 2);
        let ins: Vec<&str> = (0..k).map(|_| *r.pick(&SEG_IN)).collect();
        let usem = r.chance(1, 2);
        let outs: Vec<&str> = (0..k).map(|_| if usem { *r.pick(&SEG_OUT_M) } else { *r.pick(&SEG_OUT_I) }).collect();
        // an alpha in the output needs its binding: bind it in the input
        // (`[Avoice]` in the output takes its value from the first input element, where the alpha is bound)
        let ins_t = if outs.contains(&"[Avoice]") { let mut v: Vec<String> = ins.iter().map(|x| x.to_string()).collect(); v[0] = match v[0].as_str() { x if x.ends_with(']') && x.contains(":[") => x.replacen(":[", ":[Avoice, ", 1), x if x.starts_with('[') && x.len() > 2 => x.replacen('[', "[Avoice, ", 1), "[]" => "[Avoice]".to_string(), x if x.starts_with('{') => "C:[Avoice]".to_string(), x => format!("{x}:[Avoice]") }; v.join(" ") } else { ins.join(" ") };
        let rule = format!("{} > {} {}", ins_t, outs.join(" "), envs(r));
        Case { class: if usem { "seg-only/matrix".into() } else { "seg-only/ipa".into() }, rule, word }
    } else {
        let base = r.pick(&PROS).to_string();
        let rule = if base.contains('/') || r.chance(1, 2) { base } else { format!("{base} {}", envs(r)) };
        Case { class: "prosody-only".into(), rule, word }
    }
}

fn pros(w: &Word, with_counts: bool) -> Vec<(usize, u8, u16)> { w.syllables.iter().map(|s| (if with_counts { s.segments.len() } else { 0 }, sw::stress_code(s.stress), s.tone)).collect() }

pub fn judge(rep: &mut Report, c: &Case) {
    rep.eval(1);
    let cj = || json!({"class": c.class, "rule": c.rule, "word": c.word});
    let Ok(w) = parse_word(&c.word) else { return };
    if w.syllables.is_empty() { return }
    let rules = match compile1(&c.rule) { Ok(x) => x, Err(Applied::Abort(s)) => { rep.abort(s, cj); return } Err(_) => { rep.obs("rule_rejected", 1); return } };
    let got = match apply(&rules, &w) { Applied::Ok(g) => g, Applied::Err(_) => { rep.obs("returned_err", 1); return } Applied::Abort(s) => { rep.abort(s, cj); return } };
    rep.obs("returned_ok", 1);
    if got != w { rep.nontrivial(hash64(&(&c.rule, &c.word))); rep.obs(&format!("changed:{}", c.class), 1); if rep.samples.len() < 6 { let v = json!({"class": c.class, "rule": c.rule, "word": c.word, "result": sw::render(&got)}); rep.sample(|| v); } }
    let has_long = w.syllables.iter().any(|s| (1..s.segments.len()).any(|j| s.segments[j] == s.segments[j - 1]));
    let bad = match c.class.as_str() {
        "prosody-only" => sw::flat(&got) != sw::flat(&w),
        "seg-only/matrix" => pros(&got, true) != pros(&w, true),
        // ipa outputs shorten long segments (documented), also long segments the rule itself has just created: counts are not compared
        _ => { let _ = has_long; pros(&got, false) != pros(&w, false) }
    };
    if bad {
        let what = if c.class == "prosody-only" { "segments-changed".to_string() } else if got.syllables.len() != w.syllables.len() { "syllable-count".into() } else if pros(&got, false) != pros(&w, false) { "stress-or-tone".into() } else { "segments-per-syllable".into() };
        rep.violation(format!("{}:{what}", c.class), || json!({"case": cj(), "expected": sw::dump_json(&w), "observed": sw::dump_json(&got)}));
    }
}

pub fn explore(ctx: &Ctx, shard: usize, n: usize) -> Report {
    drive::cases(ctx, shard, n, RULE, 0x14, 300_000, 100_000_000, |r, rep, _| { let c = gen(r); judge(rep, &c); })
}
pub fn replay(_ctx: &Ctx, v: &Value) -> Report {
    let mut rep = Report::new(RULE);
    judge(&mut rep, &Case { class: jstr(v, "class"), rule: jstr(v, "rule"), word: jstr(v, "word") });
    rep
}
