//! Structural view of the hooked `Word`: comparison keys and a readable dump for witnesses.
use asca::verif::{StressKind, Syllable, Word};
use asca::Segment;
use serde_json::{json, Value};

pub type SegKey = (u8, u8, u8, Option<u16>);
pub fn seg_key(s: &Segment) -> SegKey { (s.root, s.manner, s.laryngeal, *s.place) }
pub fn stress_code(s: StressKind) -> u8 { match s { StressKind::Unstressed => 0, StressKind::Primary => 1, StressKind::Secondary => 2 } }
pub fn stress_of(c: u8) -> StressKind { match c { 1 => StressKind::Primary, 2 => StressKind::Secondary, _ => StressKind::Unstressed } }

pub type WordKey = Vec<(Vec<SegKey>, u8, u16)>;
pub fn word_key(w: &Word) -> WordKey {
    w.syllables.iter().map(|s| (s.segments.iter().map(seg_key).collect(), stress_code(s.stress), s.tone)).collect()
}

pub fn seg_str(s: &Segment) -> String {
    let g = s.get_as_grapheme().unwrap_or_else(|| "\u{fffd}".to_string());
    format!("{g}<{:x}.{:02x}.{:x}.{}>", s.root, s.manner, s.laryngeal, match *s.place { Some(p) => format!("{p:04x}"), None => "-".into() })
}

/// e.g. `'[p<..> a<..>]35 . [t a]`
pub fn dump(w: &Word) -> String {
    let mut out = Vec::new();
    for sy in &w.syllables {
        let st = match sy.stress { StressKind::Primary => "'", StressKind::Secondary => ",", StressKind::Unstressed => "" };
        let segs: Vec<String> = sy.segments.iter().map(seg_str).collect();
        out.push(format!("{st}[{}]{}", segs.join(" "), if sy.tone != 0 { sy.tone.to_string() } else { String::new() }));
    }
    out.join(" . ")
}

pub fn dump_json(w: &Word) -> Value { json!({"render": render(w), "struct": dump(w)}) }

pub fn render(w: &Word) -> String { asca::verif::render_word(w, &[]).unwrap_or_else(|_| "<render error>".into()) }

pub fn syll(segs: &[Segment], stress: u8, tone: u16) -> Syllable {
    Syllable { segments: segs.iter().cloned().collect(), stress: stress_of(stress), tone }
}

pub fn flat(w: &Word) -> Vec<SegKey> { w.syllables.iter().flat_map(|s| s.segments.iter().map(seg_key)).collect() }
pub fn seg_count(w: &Word) -> usize { w.syllables.iter().map(|s| s.segments.len()).sum() }
