//! C09 – ASCA can read back what it writes.
use crate::gen::*;
use crate::{drive, report::Report, run::*, sw, util::*, Ctx};
use asca::verif::{self, word_from_syllables, Word};
use asca::Segment;
use serde_json::{json, Value};

const RULE: &str = "segment level: every base phone + <= 1 diacritic (quick) / <= 2 diacritics (thorough, ~370 k spellings) that parses to one segment, and every segment obtained from those by toggling one of the 26 features or removing/adding one place node (quick: a seeded 1/12 of them): render, and unless the rendering contains U+FFFD, parse it back and compare bundles; word level: random assemblies of those segments into 1-4 syllables with every stress/tone/length pattern incl. long segments at syllable edges and equal segments across a boundary; public-API level: the output of run on generated rules and words must be a fixed point of running the empty rule list. Non-trivial = the rendering is not one of the spellings the segment was built from (segment level) / the word has >= 2 syllables and a suprasegmental (word level); distinct = distinct bundles / words.";

fn seg_of(w: &Word) -> Segment { w.syllables[0].segments[0] }

fn roundtrip_seg(rep: &mut Report, s: Segment, origin: &str, fam: &str) {
    rep.eval(1);
    let w = word_from_syllables(vec![sw::syll(&[s], 0, 0)]);
    let text = match render(&w) { Ok(t) => t, Err(Applied::Abort(sg)) => { rep.abort(sg, || json!({"segment": sw::seg_str(&s), "origin": origin})); return } Err(_) => return };
    if text.contains('\u{fffd}') { rep.obs("unrenderable", 1); return }
    if text != origin { rep.nontrivial(hash64(&sw::seg_key(&s))); }
    let case = || json!({"kind": "segment", "root": s.root, "manner": s.manner, "laryngeal": s.laryngeal, "place": *s.place, "origin": origin});
    match parse_word(&text) {
        Ok(back) => {
            let same = back.syllables.len() == 1 && back.syllables[0].segments.len() == 1 && seg_of(&back) == s;
            if !same {
                rep.violation(format!("{fam}:reads-back-as-a-different-word"), || json!({"case": case(), "rendered": text, "expected": sw::seg_str(&s), "observed": sw::dump(&back)}));
            }
        }
        Err(Applied::Err(k)) => rep.violation(format!("{fam}:rendering-does-not-parse:{}", k.split("::").last().unwrap_or("")), || json!({"case": case(), "rendered": text, "expected": sw::seg_str(&s), "observed": k})),
        Err(Applied::Abort(sg)) => rep.abort(sg, case),
        Err(_) => {}
    }
}

fn neighbours(s: &Segment) -> Vec<Segment> {
    let mut v = Vec::new();
    for (nk, mask, _) in crate::c18::FEATS { for pos in [true, false] { let mut t = *s; t.set_feat(nk, mask, pos); if t != *s { v.push(t) } } }
    for nk in [asca::NodeKind::Labial, asca::NodeKind::Coronal, asca::NodeKind::Dorsal, asca::NodeKind::Pharyngeal] {
        let mut t = *s; if t.get_node(nk).is_some() { t.set_node(nk, None) } else { t.set_node(nk, Some(0)) } v.push(t);
    }
    v
}

/// a stop or nasal directly before a click consonant, or a click directly before a uvular, in one syllable: the notation writes
/// such a pair exactly like one (contour) click consonant
pub fn click_ambiguous(w: &Word) -> bool {
    let is_click = |g: &str| g.chars().any(|c| "ʘǀǁǃ‼ǂ".contains(c));
    w.syllables.iter().any(|sy| { let gs: Vec<String> = sy.segments.iter().map(|x| x.get_as_grapheme().unwrap_or_default()).collect();
        (1..gs.len()).any(|j| (is_click(&gs[j]) && !is_click(&gs[j - 1]) && gs[j - 1].chars().any(|c| "kɡŋqɢɴ".contains(c))) || (is_click(&gs[j - 1]) && gs[j].chars().next().map(|c| "qɢɴχʁ".contains(c)).unwrap_or(false))) })
}

fn word_case(rep: &mut Report, w: &Word, fam: &str) {
    rep.eval(1);
    let text = match render(w) { Ok(t) => t, Err(Applied::Abort(sg)) => { rep.abort(sg, || json!({"word": sw::dump(w)})); return } Err(_) => return };
    if text.contains('\u{fffd}') { rep.obs("unrenderable", 1); return }
    if w.syllables.len() >= 2 && w.syllables.iter().any(|s| s.tone != 0 || sw::stress_code(s.stress) != 0) { rep.nontrivial(hash64(&sw::word_key(w))); }
    let case = || json!({"kind": "word", "sylls": w.syllables.iter().map(|s| json!({"segs": s.segments.iter().map(|x| json!([x.root, x.manner, x.laryngeal, *x.place])).collect::<Vec<_>>(), "stress": sw::stress_code(s.stress), "tone": s.tone})).collect::<Vec<_>>()});
    // a stop/nasal next to a click (or a click next to a uvular) can be read as one click consonant: the notation itself is ambiguous there
    // (only when the word really has such a pair side by side in one syllable - a click elsewhere in the word explains nothing)
    let fam = &if click_ambiguous(w) { format!("{fam}:next-to-a-click") } else { fam.to_string() };
    match parse_word(&text) {
        Ok(back) => if back != *w {
            // which feature of the word is lost?
            let what = if back.syllables.len() != w.syllables.len() { "syllable-count" } else if back.syllables.iter().zip(&w.syllables).any(|(a, b)| a.segments != b.segments) { "segments" } else { "stress-or-tone" };
            rep.violation(format!("{fam}:{what}"), || json!({"case": case(), "rendered": text, "expected": sw::dump(w), "observed": sw::dump(&back)}));
        } else if rep.samples.len() < 4 { let t = text.clone(); rep.sample(|| json!({"word": t, "round_trip": "ok"})); },
        Err(Applied::Err(k)) => rep.violation(if fam.contains("click") { format!("{fam}:rendering-does-not-parse") } else { format!("{fam}:rendering-does-not-parse:{}", k.split("::").last().unwrap_or("")) }, || json!({"case": case(), "rendered": text, "observed": k})),
        Err(Applied::Abort(sg)) => rep.abort(sg, case),
        Err(_) => {}
    }
}

pub fn explore(ctx: &Ctx, shard: usize, n: usize) -> Report {
    let mut rep = Report::new(RULE);
    let segs = single_segments(if ctx.quick() { 1 } else { 2 });
    if shard == 0 { rep.obs("spellings", segs.len() as u64); }
    let keep = ctx.pick(12, 1);
    let mut seen = std::collections::HashSet::new();
    for (k, (t, w)) in segs.iter().enumerate() {
        if k % n != shard { continue }
        let s = seg_of(w);
        roundtrip_seg(&mut rep, s, t, "segment");
        if hash64(&(k as u64, ctx.seed)) % keep != 0 { continue }
        for nb in neighbours(&s) { if seen.insert(sw::seg_key(&nb)) { roundtrip_seg(&mut rep, nb, t, "one-feature-away"); } }
    }
    // word level
    let pool: Vec<Segment> = segs.iter().step_by(7).map(|(_, w)| seg_of(w)).collect();
    // "twins": a segment and the same spelling with one more diacritic (reachable through rules, e.g. `at.tʰa` + `$ > *`)
    let mut twins: Vec<(Segment, Segment)> = Vec::new();
    { let by_text: std::collections::HashMap<&str, Segment> = segs.iter().map(|(t, w)| (t.as_str(), seg_of(w))).collect();
      for (t, w) in &segs { let mut cs: Vec<char> = t.chars().collect(); if cs.len() < 2 { continue } cs.pop(); let shorter: String = cs.iter().collect(); if let Some(b) = by_text.get(shorter.as_str()) { if *b != seg_of(w) { twins.push((*b, seg_of(w))); } } } }
    if shard == 0 { rep.obs("twin_pairs", twins.len() as u64); }
    let words = drive::cases(ctx, shard, n, RULE, 0x09, 150_000, 30_000_000, |r, rep, _| {
        let ns = r.range(1, 4);
        let mut sylls = Vec::new();
        let mut prev_last: Option<Segment> = None;
        for si in 0..ns {
            let len = r.range(1, 3);
            let mut v: Vec<Segment> = Vec::new();
            if !twins.is_empty() && r.chance(1, 5) { let (a, b) = *r.pick(&twins); if r.chance(1, 2) { v.push(a); v.push(b) } else { v.push(b); v.push(a) } }
            for gi in 0..len {
                let s = if gi == 0 && prev_last.is_some() && r.chance(1, 5) { prev_last.unwrap() } else if r.chance(1, 2) { { let t: String = rand_seg(r); seg_of(&parse_word(&t).ok().unwrap()) } } else { *r.pick(&pool) };
                let reps = match r.below(8) { 0 => 2, 1 => 3, _ => 1 };
                if v.last() == Some(&s) { continue }
                for _ in 0..reps { v.push(s); }
            }
            if v.is_empty() { v.push(pool[0]) }
            prev_last = v.last().cloned();
            let stress = if si == 0 && r.chance(1, 3) { 0 } else { [0, 0, 1, 2][r.below(4)] };
            let tone = [0u16, 0, 0, 5, 51, 214, 1234, 3][r.below(8)];
            sylls.push(sw::syll(&v, stress, tone));
        }
        word_case(rep, &word_from_syllables(sylls), "word");
    });
    rep.merge(words);
    // public API: run's output is a fixed point of the empty rule list
    let api = drive::cases(ctx, shard, n, RULE, 0x0909, 60_000, 10_000_000, |r, rep, _| {
        let rule = plain(&rand_rule(r, &RuleCfg::default()));
        let word = rand_word(r, &WordCfg::default());
        rep.eval(1);
        let g = one_group(&[rule.clone()]);
        let Ok(out) = run_pub(&g, &[word.clone()], &[], &[]) else { return };
        // the same result as a structure (hook): what the rule made must survive being written and read, bundle by bundle - the
        // string fixed point below cannot see a bundle that is read back as another bundle with the same spelling
        if let (Ok(pr), Ok(w)) = (compile1(&rule), parse_word(&word)) { if let Applied::Ok(res) = apply(&pr, &w) { if res != w && !res.syllables.is_empty() { word_case(rep, &res, "word"); } } }
        if out[0].contains('\u{fffd}') { rep.obs("unrenderable", 1); return }
        match run_pub(&[], &out, &[], &[]) {
            Ok(again) => if again != out { rep.violation("run-output-is-not-a-fixed-point".into(), || json!({"case": {"kind": "api", "rule": rule, "word": word}, "expected": out, "observed": again})); } else { rep.obs("fixed_points", 1); },
            Err(Applied::Err(k)) => rep.violation(format!("run-output-does-not-parse:{}", k.split("::").last().unwrap_or("")), || json!({"case": {"kind": "api", "rule": rule, "word": word}, "rendered": out, "observed": k})),
            Err(Applied::Abort(s)) => rep.abort(s, || json!({"rule": rule, "word": word})),
            Err(_) => {}
        }
    });
    rep.merge(api);
    let _ = verif::table_order_fingerprint();
    rep
}

pub fn replay(_ctx: &Ctx, v: &Value) -> Report {
    let mut rep = Report::new(RULE);
    let mk = |x: &Value| { let mut s = Segment::default(); s.root = x[0].as_u64().unwrap_or(0) as u8; s.manner = x[1].as_u64().unwrap_or(0) as u8; s.laryngeal = x[2].as_u64().unwrap_or(0) as u8; *s.place = x[3].as_u64().map(|p| p as u16); s };
    match jstr(v, "kind").as_str() {
        "segment" => { let s = mk(&json!([v["root"], v["manner"], v["laryngeal"], v["place"]])); roundtrip_seg(&mut rep, s, &jstr(v, "origin"), "segment"); }
        "word" => { let sylls = v["sylls"].as_array().map(|a| a.iter().map(|s| sw::syll(&s["segs"].as_array().map(|g| g.iter().map(mk).collect::<Vec<_>>()).unwrap_or_default(), s["stress"].as_u64().unwrap_or(0) as u8, s["tone"].as_u64().unwrap_or(0) as u16)).collect()).unwrap_or_default(); word_case(&mut rep, &word_from_syllables(sylls), "word"); }
        "api" => { let g = one_group(&[jstr(v, "rule")]); rep.eval(1); if let Ok(out) = run_pub(&g, &[jstr(v, "word")], &[], &[]) { if !out[0].contains('\u{fffd}') { match run_pub(&[], &out, &[], &[]) { Ok(again) => if again != out { rep.violation("run-output-is-not-a-fixed-point".into(), || json!({"expected": out, "observed": again})); }, Err(Applied::Err(k)) => rep.violation(format!("run-output-does-not-parse:{}", k.split("::").last().unwrap_or("")), || json!({"rendered": out})), _ => {} } } } }
        _ => {}
    }
    rep
}
