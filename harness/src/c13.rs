//! C13 – alternative spellings of the same rule or word behave identically (public API only).
use crate::gen::*;
use crate::{drive, report::Report, run::*, util::*, Ctx};
use serde_json::{json, Value};

const RULE: &str = "(1) every spelling the program documents for each of the 26 features, 5 place nodes and 4 suprasegmentals (synonym table grouped by hand, 170+ spellings), plain and with spaces between its letters, x {input, context, output} x {+,-}, in the rule lexer and in the alias lexer, against the canonical spelling on a fixed word list - exhaustive; (2) rules from the full-grammar generator printed twice from one AST: plainly and with a random choice of arrow (> => ->), `|` or `//`, `*` or `∅`, ellipsis form, ⟨⟩ or <>, spaces inside matrices, Greek or Latin alpha letters (consistently renamed), renumbered variables, feature synonyms and a trailing `;;` comment; (3) words respelled with ' , : ; doubled segments, ^ and the input aliases g ? ! ǝ φ S Z C G N B R X H A E I O U Y. Two spellings must give equal words, or errors of the same kind. Non-trivial = the rule changed at least one word (1, 2) / the respelling differs from the original and the rule changed the word (3); distinct = distinct (spelling pair, words).";

const WORDS: [&str; 24] = ["pa.ta", "ˈba.di", "su.zu", "man.ŋa", "la.ra", "ja.wa", "t͡sa.d͡ʒi", "kʷa.xa", "ha.ʔa", "iːn.tuː", "ˌe.oˈə", "fa.va", "θa.ʃa", "pʰa.tʲa", "ɲa.ᵐba", "qa.æ", "ã.y", "ɯ.ɔ51", "pla.kra35", "ǃa.ǀi", "r̩.l̩", "a", "ˈstraŋ", "wi.ju.ɥi"];

fn words() -> Vec<String> { WORDS.iter().map(|s| s.to_string()).collect() }

/// Ok(words) or Err(kind); Abort is returned separately
fn eval(rule: &[String], words: &[String], from: &[String]) -> Result<Result<Vec<String>, String>, String> {
    match run_pub(&one_group(rule), words, &[], from) { Ok(v) => Ok(Ok(v)), Err(Applied::Err(k)) => Ok(Err(k)), Err(Applied::Abort(s)) => Err(s), Err(Applied::Ok(_)) => Err("?".into()) }
}
/// per word, so that one failing word does not hide the others
fn eval_each(rule: &[String], words: &[String], from: &[String]) -> Result<Vec<Result<String, String>>, String> {
    let mut out = Vec::new();
    for w in words { match run_pub(&one_group(rule), &[w.clone()], &[], from) { Ok(v) => out.push(Ok(v[0].clone())), Err(Applied::Err(k)) => out.push(Err(k)), Err(Applied::Abort(s)) => return Err(s), Err(Applied::Ok(_)) => {} } }
    Ok(out)
}

fn compare(rep: &mut Report, sig: &str, a: &[String], b: &[String], wa: &[String], wb: &[String], from_a: &[String], from_b: &[String], nontrivial_key: u64) {
    rep.eval(1);
    let cj = || json!({"a": a, "b": b, "words_a": wa, "words_b": wb, "from_a": from_a, "from_b": from_b});
    let (ra, rb) = match (eval_each(a, wa, from_a), eval_each(b, wb, from_b)) { (Ok(x), Ok(y)) => (x, y), (Err(s), _) | (_, Err(s)) => { rep.abort(s, cj); return } };
    if ra != rb {
        let i = (0..ra.len().min(rb.len())).find(|i| ra[*i] != rb[*i]).unwrap_or(0);
        let kind = match (ra.get(i), rb.get(i)) { (Some(Ok(_)), Some(Ok(_))) => "different-words", (Some(Err(_)), Some(Err(_))) => "different-error-kinds", _ => "one-spelling-is-rejected" };
        rep.violation(format!("{sig}:{kind}"), || json!({"case": cj(), "word": wa.get(i), "expected": format!("{:?}", ra.get(i)), "observed": format!("{:?}", rb.get(i))}));
        return;
    }
    let changed = ra.iter().zip(wa).any(|(r, w)| matches!(r, Ok(x) if x != w));
    if changed { rep.nontrivial(nontrivial_key); }
    let _ = eval;
}

fn spaced(s: &str) -> String { s.chars().map(|c| c.to_string()).collect::<Vec<_>>().join(" ") }

fn part1(rep: &mut Report, shard: usize, n: usize) {
    let ws = words();
    let mut job = 0;
    let names: Vec<&str> = FEATS.iter().chain(NODES.iter()).chain(SUPRAS.iter()).cloned().collect();
    for name in names {
        let syn = synonyms(name);
        let supra = SUPRAS.contains(&name);
        for sign in ['+', '-'] {
            for (pi, tmpl) in ["[{}] > [+nasal]", "a > e / _ [{}]", "[] > [{}]", "V:[{}] > o / [{}] _"].iter().enumerate() {
                if supra && pi == 1 { /* fine: suprasegmental in a context */ }
                let canon = tmpl.replace("{}", &format!("{sign}{name}"));
                for v in syn.iter().skip(1) { for sp in [v.to_string(), spaced(v), v.to_uppercase()] {
                    job += 1; if (job - 1) % n != shard { continue }
                    // inside a matrix a leading capital is alpha syntax, so upper case is only tried when the modifier is there to take it
                    if sp.chars().next().map(|c| c.is_uppercase()).unwrap_or(false) { continue }
                    let other = tmpl.replace("{}", &format!("{sign}{sp}"));
                    compare(rep, &format!("feature-synonym:{name}"), &[canon.clone()], &[other.clone()], &ws, &ws, &[], &[], hash64(&(&canon, &other)));
                } }
            }
            // alias lexer
            for v in syn.iter().skip(1) {
                job += 1; if (job - 1) % n != shard { continue }
                let fa = vec![format!("[{sign}{name}] > Q")]; let fb = vec![format!("[{sign}{v}] > Q")];
                compare(rep, &format!("alias-feature-synonym:{name}"), &[], &[], &ws, &ws, &fa, &fb, hash64(&(&fa, &fb)));
            }
        }
    }
    // tone synonyms
    for v in synonyms("tone").iter().skip(1) {
        job += 1; if (job - 1) % n != shard { continue }
        compare(rep, "feature-synonym:tone", &["%:[tone: 51] > [tone: 35]".to_string()], &[format!("%:[{v}: 51] > [{v}:35]")], &ws, &ws, &[], &[], hash64(v));
    }
}

fn respell_word(r: &mut Rng, w: &str) -> String {
    let mut s = w.to_string();
    if r.chance(1, 2) { s = s.replace('ˈ', "'") }
    if r.chance(1, 2) { s = s.replace('ˌ', ",") }
    if r.chance(1, 3) { s = s.replace("ː.", ";") }
    if r.chance(1, 2) { s = s.replace('ː', ":") }
    else if r.chance(1, 2) {
        // length mark -> doubled segment (only after single-character segments, to stay within what the manual shows)
        let cs: Vec<char> = s.chars().collect(); let mut o = String::new();
        for (i, c) in cs.iter().enumerate() { if *c == 'ː' && i > 0 && "aeiouəɛɔyɯæptkbdɡmnŋszfvxhlrjwqθɲʃ".contains(cs[i - 1]) && (i < 2 || !"\u{0361}\u{035C}ᵐⁿᵑ".contains(cs[i - 2])) && !is_mark(cs[i - 1]) { o.push(cs[i - 1]) } else { o.push(*c) } }
        s = o;
    }
    // the tie bar may be written above or below (`◌͡◌` or `◌͜◌`), or as a caret
    if r.chance(1, 2) { s = s.replace('\u{0361}', "^") } else if r.chance(1, 2) { s = s.replace('\u{0361}', "\u{035C}") }
    for (a, b) in [('ɡ', 'g'), ('ʔ', '?'), ('ǃ', '!'), ('ɸ', 'φ'), ('ʃ', 'S'), ('ʒ', 'Z'), ('ɕ', 'C'), ('ɢ', 'G'), ('ɴ', 'N'), ('ʙ', 'B'), ('ʀ', 'R'), ('χ', 'X'), ('ʜ', 'H'), ('ɐ', 'A'), ('ɛ', 'E'), ('ɪ', 'I'), ('ɔ', 'O'), ('ʊ', 'U'), ('ʏ', 'Y'), ('ə', 'ǝ')] {
        if r.chance(1, 2) { s = s.replace(a, &b.to_string()) }
    }
    s
}
fn is_mark(c: char) -> bool { ('\u{0300}'..='\u{036f}').contains(&c) || "ʰʷʲˠˤʼ˞ⁿˡ".contains(c) }

const EXTRA_SEGS: [&str; 16] = ["ʃ", "ʒ", "ɕ", "ɢ", "ɴ", "ʙ", "ʀ", "χ", "ʜ", "ɐ", "ɛ", "ɪ", "ɔ", "ʊ", "ʏ", "ɸ"];

pub struct Case { pub kind: String, pub a: Vec<String>, pub b: Vec<String>, pub wa: Vec<String>, pub wb: Vec<String> }

pub fn explore(ctx: &Ctx, shard: usize, n: usize) -> Report {
    let mut rep = Report::new(RULE);
    part1(&mut rep, shard, n);
    // (2) rule respellings
    let p2 = drive::cases(ctx, shard, n, RULE, 0x13, 40_000, 10_000_000, |r, rep, _| {
        let ast = rand_rule(r, &RuleCfg::default());
        let sp = Spelling { arrow: r.below(3) as u8, dslash: r.chance(1, 2), empty_set: r.chance(1, 2), ellipsis: r.below(3) as u8, ascii_angle: r.chance(1, 2), matrix_spaces: r.chance(1, 3), greek: r.chance(1, 2), feat_variant: r.next() as u32, comment: if r.chance(1, 3) { Some("a comment > / | _".to_string()) } else { None }, var_shift: r.below(3) as u8 * 3, alpha_shift: r.below(4) as u8 };
        let (a, mut b) = (plain(&ast), sp.rule(&ast));
        if r.chance(1, 4) { b = b.replace('\u{0361}', "\u{035C}") }   // under-tie for over-tie
        if r.chance(1, 6) { b = b.replace(" _ ", if r.chance(1, 2) { " __ " } else { " ___ " }) }   // "the underline may be as long as you like"
        if r.chance(1, 6) && !b.contains("//") { b = b.replace(" / ", "/").replace(" | ", "|") }       // no spaces around the environment separators
        let ws: Vec<String> = (0..4).map(|_| rand_word(r, &WordCfg::default())).collect();
        if a == b { return }
        if rep.samples.len() < 5 { let (a2, b2) = (a.clone(), b.clone()); rep.sample(|| json!({"plain": a2, "respelled": b2})); }
        // which device is at work, for the signature
        let dev = if ast.is_metathesis() { "metathesis" } else if ast.is_deletion() { "deletion" } else if ast.is_insertion() { "insertion" } else { "substitution" };
        compare(rep, &format!("rule-respelling:{dev}"), &[a.clone()], &[b.clone()], &ws, &ws, &[], &[], hash64(&(&a, &ws)));
    });
    rep.merge(p2);
    // (3) word respellings
    let p3 = drive::cases(ctx, shard, n, RULE, 0x1313, 40_000, 10_000_000, |r, rep, _| {
        let rule = plain(&rand_rule(r, &RuleCfg { max_side: 2, ..RuleCfg::default() }));
        let mut w = rand_word(r, &WordCfg::default());
        // sprinkle the segments that have ASCII aliases
        if r.chance(2, 3) { let cs: Vec<char> = w.chars().collect(); let mut o = String::new(); for c in cs { if "ptksaeiou".contains(c) && r.chance(1, 4) { { let e: &&str = r.pick(&EXTRA_SEGS[..]); o.push_str(e) } } else { o.push(c) } } w = o; }
        // click clusters, with and without the caret (the aliases ! G N X must work inside them too)
        if r.chance(1, 5) {
            let (a, b) = *r.pick(&[("ŋ", "ǃ"), ("k", "ǀ"), ("ɡ", "ǁ"), ("ɴ", "ǃ"), ("ɢ", "ǂ"), ("q", "ʘ"), ("ǃ", "ɢ"), ("ǂ", "ɴ"), ("ǁ", "χ"), ("ǃ", "q"), ("ŋǃ", "ɢ")][..]);
            let cl = format!("{a}{}{b}", if r.chance(1, 2) { "^" } else { "" });
            w = if r.chance(1, 2) { format!("{cl}{}", w) } else { format!("{}.{cl}a", w) };
        }
        let w2 = respell_word(r, &w);
        if w2 == w { return }
        if rep.samples.len() < 8 { let (a, b) = (w.clone(), w2.clone()); rep.sample(|| json!({"word": a, "respelled": b})); }
        compare(rep, "word-respelling", &[rule.clone()], &[rule.clone()], &[w.clone()], &[w2.clone()], &[], &[], hash64(&(&rule, &w, &w2)));
    });
    rep.merge(p3);
    rep
}

pub fn replay(_ctx: &Ctx, v: &Value) -> Report {
    let mut rep = Report::new(RULE);
    compare(&mut rep, "replay", &jstrs(v, "a"), &jstrs(v, "b"), &jstrs(v, "words_a"), &jstrs(v, "words_b"), &jstrs(v, "from_a"), &jstrs(v, "from_b"), 0);
    // keep the original signature family so that known findings can match
    let vs: Vec<(String, (u64, Value))> = rep.violations.iter().map(|(k, x)| (k.clone(), x.clone())).collect();
    rep.violations.clear();
    for (k, x) in vs { let fam = jstr(v, "family"); rep.violations.insert(if fam.is_empty() { k } else { k.replace("replay", &fam) }, x); }
    rep
}
