//! Guarded execution of the real code through the structural hooks.
use crate::isol::{guard, Outcome, DEFAULT_BUDGET};
use crate::util::err_kind;
use asca::verif::{self, ParsedRules, Word};
use asca::RuleGroup;

pub enum Applied { Ok(Word), Err(String), Abort(String) }

impl Applied {
    pub fn ok(self) -> Option<Word> { if let Applied::Ok(w) = self { Some(w) } else { None } }
    pub fn is_err(&self) -> bool { matches!(self, Applied::Err(_)) }
    pub fn tag(&self) -> String { match self { Applied::Ok(w) => format!("Ok({})", crate::sw::dump(w)), Applied::Err(k) => format!("Err({k})"), Applied::Abort(s) => format!("Abort({s})") } }
}

/// One rule group holding the given lines. Err(kind) for a syntax error, Abort(sig) for a panic.
pub fn compile(lines: &[String]) -> Result<ParsedRules, Applied> {
    compile_groups(&[RuleGroup::from_rules(lines.to_vec())])
}
pub fn compile1(line: &str) -> Result<ParsedRules, Applied> { compile(&[line.to_string()]) }

pub fn compile_groups(groups: &[RuleGroup]) -> Result<ParsedRules, Applied> {
    match guard(DEFAULT_BUDGET, || verif::parse_rules(groups)) {
        Outcome::Done(Ok(r)) => Ok(r),
        Outcome::Done(Err(e)) => Err(Applied::Err(err_kind(&e))),
        o => Err(Applied::Abort(o.abort_sig().unwrap_or_default())),
    }
}

/// The word after the last rule group.
pub fn apply(rules: &ParsedRules, w: &Word) -> Applied {
    match guard(DEFAULT_BUDGET, || verif::apply_structural(rules, w)) {
        Outcome::Done(Ok(mut v)) => Applied::Ok(v.pop().unwrap_or_else(|| w.clone())),
        Outcome::Done(Err(e)) => Applied::Err(err_kind(&e)),
        o => Applied::Abort(o.abort_sig().unwrap_or_default()),
    }
}

/// The word after every rule group.
pub fn apply_all(rules: &ParsedRules, w: &Word) -> Result<Vec<Word>, Applied> {
    match guard(DEFAULT_BUDGET, || verif::apply_structural(rules, w)) {
        Outcome::Done(Ok(v)) => Ok(v),
        Outcome::Done(Err(e)) => Err(Applied::Err(err_kind(&e))),
        o => Err(Applied::Abort(o.abort_sig().unwrap_or_default())),
    }
}

pub fn parse_word(text: &str) -> Result<Word, Applied> { parse_word_with(text, &[]) }
pub fn parse_word_with(text: &str, into: &[String]) -> Result<Word, Applied> {
    match guard(DEFAULT_BUDGET, || verif::parse_word(text, into)) {
        Outcome::Done(Ok(w)) => Ok(w),
        Outcome::Done(Err(e)) => Err(Applied::Err(err_kind(&e))),
        o => Err(Applied::Abort(o.abort_sig().unwrap_or_default())),
    }
}

pub fn render(w: &Word) -> Result<String, Applied> { render_with(w, &[]) }
pub fn render_with(w: &Word, from: &[String]) -> Result<String, Applied> {
    match guard(DEFAULT_BUDGET, || verif::render_word(w, from)) {
        Outcome::Done(Ok(s)) => Ok(s),
        Outcome::Done(Err(e)) => Err(Applied::Err(err_kind(&e))),
        o => Err(Applied::Abort(o.abort_sig().unwrap_or_default())),
    }
}

/// The public entry point, guarded: Ok(lines) / Err(kind) / Abort(sig)
pub fn run_pub(groups: &[RuleGroup], words: &[String], into: &[String], from: &[String]) -> Result<Vec<String>, Applied> {
    match guard(DEFAULT_BUDGET.saturating_mul(1 + words.len() as u64), || asca::run(groups, words, into, from)) {
        Outcome::Done(Ok(v)) => Ok(v),
        Outcome::Done(Err(e)) => Err(Applied::Err(err_kind(&e))),
        o => Err(Applied::Abort(o.abort_sig().unwrap_or_default())),
    }
}

/// All base phones and base+one-diacritic spellings that parse to exactly one segment.
pub fn single_segments(max_dia: usize) -> Vec<(String, Word)> {
    let bases = verif::cardinals();
    let dias: Vec<char> = verif::diacritics().into_iter().map(|d| d.0).collect();
    let mut texts: Vec<String> = Vec::new();
    for (b, _) in &bases {
        texts.push(b.clone());
        if max_dia >= 1 { for d in &dias { texts.push(format!("{b}{d}")); } }
        if max_dia >= 2 { for (i, d) in dias.iter().enumerate() { for e in dias.iter().skip(i + 1) { texts.push(format!("{b}{d}{e}")); } } }
    }
    let mut out = Vec::new();
    for t in texts {
        if let Ok(w) = parse_word(&t) {
            if w.syllables.len() == 1 && w.syllables[0].segments.len() == 1 { out.push((t, w)); }
        }
    }
    out
}
