//! C07 – variables and alphas reproduce exactly what they captured.
use crate::gen::*;
use crate::{drive, report::Report, run::*, sw, util::*, Ctx};
use asca::verif::Word;
use serde_json::{json, Value};

const RULE: &str = "three families on generated words over the full inventory (long and overlong segments, tones, both stresses, multi-node places): (i) identity by variables `X1=1 .. Xk=k > 1 .. k`, k <= 3, X in {matrix, group, [], %, structure}, with a generated context and exception; (ii) identity by alphas `[αF] > [αF]` for all 26 features, 5 nodes, long, overlong, stress, sec.stress, on matrices, groups and `%`, also two alphas at once; (iii) variables in a context: `A > B / X=1 _ 1` must fire exactly between identical bundles satisfying X (reference: one-line neighbour comparison on the already-rewritten left / not yet rewritten right neighbour), `% > [+stress] / %=1 _ 1` exactly between identical syllables, and haplology `%=1 > * / 1_` must delete exactly the syllables identical to their (remaining) predecessor. Non-trivial = (i)/(ii) the rule matched at least once (checked with a marker variant of the rule), (iii) the rule fired at least once and was rejected at least once; distinct = distinct (rule, word).";

pub struct Case { pub family: String, pub rule: String, pub word: String, pub a: String, pub b: String, pub x: String }
impl Case { fn json(&self) -> Value { json!({"family": self.family, "rule": self.rule, "word": self.word, "a": self.a, "b": self.b, "x": self.x}) } }

fn bindable(r: &mut Rng, n: u8) -> (String, bool) {
    match r.below(7) {
        0 => (format!("[]={n}"), false),
        1 | 2 => (format!("{}={n}", r.pick(&GROUPS)), false),
        3 => (format!("[{}{}]={n}", if r.chance(1, 2) { '+' } else { '-' }, r.pick(&FEATS)), false),
        4 => (format!("%={n}"), true),
        5 => (format!("⟨{}⟩={n}", ["C V", "... V", "C ...", "...", "C V C", "V"][r.below(6)]), true),
        _ => (format!("V={n}"), false),
    }
}

fn env_text(r: &mut Rng) -> String {
    let cfg = RuleCfg { vars: false, alphas: false, ..RuleCfg::default() };
    let mut g = RuleGen::new(r, cfg);
    let sp = Spelling::default();
    let mut s = String::new();
    if g.r.chance(1, 2) { s += &format!(" / {}", sp.env(&g.env_nonempty())); }
    if g.r.chance(1, 4) { s += &format!(" | {}", sp.env(&g.env_nonempty())); }
    s
}

const ALPHA_FEATS: [&str; 9] = ["lab", "cor", "dor", "phr", "place", "long", "overlong", "stress", "sec.stress"];

pub(crate) fn gen(r: &mut Rng) -> Case {
    let word = rand_word(r, &WordCfg { max_sylls: 5, ..WordCfg::default() });
    let mut c = Case { family: String::new(), rule: String::new(), word, a: String::new(), b: String::new(), x: String::new() };
    match r.below(11) {
        10 => {
            // two neighbouring segments that agree in a feature (`[αF] [αF]=1 > [±H] 1`): the first is changed, the second is written back
            // as captured. After a pair that does not agree the scan goes on one segment further, with nothing remembered of the attempt.
            let (f, h) = (r.below(26), r.below(26));
            let hp = r.chance(1, 2);
            let segs: Vec<String> = CONS.iter().chain(VOWS.iter()).map(|x| x.to_string()).collect();
            let n = r.range(3, 6);
            let mut w = String::new(); let mut last = String::new();
            for i in 0..n { let x = r.pick(&segs).clone(); if x == last { continue } if i > 0 && r.chance(1, 4) { w.push('.') } w += &x; last = x; }
            c.word = w;
            c.family = "alpha-agreement".into();
            c.a = crate::c04::F[f].0.to_string(); c.b = crate::c04::F[h].0.to_string(); c.x = if hp { "+".into() } else { "-".into() };
            c.rule = format!("[A{}] [A{}]=1 > [{}{}] 1", c.a, c.a, c.x, c.b);
        }
        0 | 1 | 2 => {
            let k = r.range(1, 3);
            let mut ins = Vec::new(); let mut outs = Vec::new(); let mut any_syll = false; let mut any_seg = false;
            for n in 1..=k { let (t, syl) = bindable(r, n as u8); if syl { any_syll = true } else { any_seg = true } ins.push(t); outs.push(n.to_string()); }
            c.family = format!("var-identity:{}", if any_syll && any_seg { "mixed" } else if any_syll { "syllable" } else { "segment" });
            c.rule = format!("{} > {}{}", ins.join(" "), outs.join(" "), env_text(r));
        }
        3 | 4 | 5 => {
            let f = if r.chance(2, 3) { r.pick(&FEATS).to_string() } else { r.pick(&ALPHA_FEATS).to_string() };
            let syll_only = f == "stress" || f == "sec.stress";
            let host = match r.below(4) { 0 => String::new(), 1 => format!("{}:", r.pick(&GROUPS)), 2 if syll_only => "%:".to_string(), _ => String::new() };
            let two = if r.chance(1, 4) { let g = r.pick(&FEATS).to_string(); if g != f { format!(", B{g}") } else { String::new() } } else { String::new() };
            c.family = format!("alpha-identity:{}", if FEATS.contains(&f.as_str()) { "feature".to_string() } else { f.clone() });
            c.rule = format!("{host}[A{f}{two}] > [A{f}{two}]{}", env_text(r));
        }
        6 | 7 => {
            // A > B / X=1 _ 1 : A is a segment of the word so that the rule has something to do
            let segs: Vec<String> = CONS.iter().chain(VOWS.iter()).map(|s| s.to_string()).collect();
            c.a = r.pick(&segs).clone();
            c.b = loop { let b = r.pick(&segs).clone(); if b != c.a { break b } };
            c.x = match r.below(4) { 0 => "[]".into(), 1 => "C".into(), 2 => "V".into(), _ => format!("[{}{}]", if r.chance(1, 2) { '+' } else { '-' }, ["voice", "son", "cont", "nasal", "hi", "cons"][r.below(6)]) };
            // words with repeated segments, otherwise the rule would almost never fire
            let pool: Vec<String> = (0..3).map(|_| r.pick(&segs).clone()).collect();
            let n = r.range(3, 7);
            let mut w = String::new(); let mut last = String::new();
            for i in 0..n { let s = if r.chance(1, 3) { c.a.clone() } else { r.pick(&pool).clone() }; if s == last { continue } if i > 0 && r.chance(1, 4) { w.push('.') } w += &s; last = s; }
            c.word = w;
            c.family = "var-context:segment".into();
            c.rule = format!("{} > {} / {}=1 _ 1", c.a, c.b, c.x);
        }
        8 => {
            let sy: Vec<String> = (0..2).map(|_| format!("{}{}", r.pick(&CONS), r.pick(&VOWS))).collect();
            let n = r.range(3, 6);
            // the two recurring syllables may carry a tone or a secondary stress of their own (part of what is captured and compared)
            let deco: Vec<(String, String)> = sy.iter().map(|_| match r.below(5) { 0 => (String::new(), "51".to_string()), 1 => ("ˌ".to_string(), String::new()), 2 => ("ˌ".to_string(), "5".to_string()), _ => (String::new(), String::new()) }).collect();
            let mut w = String::new();
            for i in 0..n {
                let k = r.below(sy.len()); let s = sy[k].clone();
                let (pre, post) = if r.chance(3, 4) { deco[k].clone() } else { (String::new(), String::new()) };
                let body = if r.chance(1, 8) { format!("{s}{}", r.pick(&CONS)) } else { s };
                if i > 0 && pre.is_empty() { w.push('.') }
                w += &format!("{pre}{body}{post}");
            }
            c.word = w;
            c.family = "var-context:syllable".into();
            // the binder is a syllable or a structure that any syllable satisfies, in the context or in the exception's stead
            let binder = *r.pick(&["%", "%", "⟨...⟩", "⟨..⟩", "<...>"]);
            c.rule = format!("% > [+stress] / {binder}=1 _ 1");
        }
        _ => {
            let sy: Vec<String> = (0..2).map(|_| format!("{}{}", r.pick(&CONS), r.pick(&VOWS))).collect();
            let n = r.range(2, 6);
            c.word = (0..n).map(|_| { let s = r.pick(&sy).clone(); if r.chance(1, 6) { format!("{s}{}", r.pick(&CONS)) } else if r.chance(1, 8) { s[..s.len()].chars().skip(1).collect() } else { s } }).collect::<Vec<_>>().join(".");
            c.family = "var-context:haplology".into();
            c.rule = "%=1 > * / 1_".into();
        }
    }
    c
}

fn model_segment_ctx(c: &Case, w: &Word) -> Option<(Word, usize, usize)> {
    let a = parse_word(&c.a).ok()?.syllables[0].segments[0];
    let b = parse_word(&c.b).ok()?.syllables[0].segments[0];
    // X as a predicate: evaluate it with the real matcher on a one-segment word (`X > [+stress]`), which C04 validates
    let xr = compile1(&format!("{} > [+stress]", c.x)).ok()?;
    let mut out = w.clone();
    let mut flat: Vec<(usize, usize)> = Vec::new();
    for (si, s) in w.syllables.iter().enumerate() { for gi in 0..s.segments.len() { flat.push((si, gi)); } }
    let adj = |o: &Word| o.syllables.iter().any(|s| (1..s.segments.len()).any(|j| s.segments[j] == s.segments[j - 1]));
    if adj(&out) { return None }
    let (mut fired, mut rejected) = (0, 0);
    for i in 0..flat.len() {
        let (si, gi) = flat[i];
        if out.syllables[si].segments[gi] != a { continue }
        if i == 0 || i + 1 >= flat.len() { rejected += 1; continue }
        let l = out.syllables[flat[i - 1].0].segments[flat[i - 1].1];
        let rr = out.syllables[flat[i + 1].0].segments[flat[i + 1].1];
        let lw = asca::verif::word_from_syllables(vec![sw::syll(&[l], 0, 0)]);
        let x_ok = matches!(apply(&xr, &lw), Applied::Ok(g) if sw::stress_code(g.syllables[0].stress) == 1);
        if x_ok && l == rr { out.syllables[si].segments[gi] = b; fired += 1; if adj(&out) { return None } } else { rejected += 1; }
    }
    Some((out, fired, rejected))
}

fn model_alpha_agreement(c: &Case, w: &Word) -> Option<(Word, usize, usize)> {
    use crate::c04::{get, m_set, to_m, F};
    let fi = F.iter().position(|x| x.0 == c.a)?; let hi = F.iter().position(|x| x.0 == c.b)?; let pos = c.x == "+";
    let adj = |o: &Word| o.syllables.iter().any(|s| (1..s.segments.len()).any(|j| s.segments[j] == s.segments[j - 1]));
    if adj(w) { return None }
    let mut out = w.clone();
    let flat: Vec<(usize, usize)> = w.syllables.iter().enumerate().flat_map(|(si, s)| (0..s.segments.len()).map(move |gi| (si, gi))).collect();
    let (mut fired, mut rejected) = (0, 0); let mut i = 0;
    while i + 1 < flat.len() {
        let (a, b) = (out.syllables[flat[i].0].segments[flat[i].1], out.syllables[flat[i + 1].0].segments[flat[i + 1].1]);
        let (va, vb) = (get(&to_m(&a), F[fi].1), get(&to_m(&b), F[fi].1));
        let agree = match (va, vb) { (Some(x), Some(y)) => (x & F[fi].2 != 0) == (y & F[fi].2 != 0), _ => false };
        if agree {
            // the change to the first segment, through the real setter of the exported Segment (C18 checks that against its equations)
            let mut m = to_m(&a); m_set(&mut m, F[hi].1, F[hi].2, pos);
            let nk = crate::c18::FEATS[hi].0; let mut t = a; t.set_feat(nk, crate::c18::FEATS[hi].1, pos);
            if to_m(&t) != m { return None }
            out.syllables[flat[i].0].segments[flat[i].1] = t; fired += 1; i += 2;
            if adj(&out) { return None }
        } else { rejected += 1; i += 1 }
    }
    Some((out, fired, rejected))
}
fn model_syllable_ctx(w: &Word) -> (Word, usize, usize) {
    let mut out = w.clone(); let (mut f, mut rj) = (0, 0);
    for i in 0..out.syllables.len() {
        if i == 0 || i + 1 >= out.syllables.len() { rj += 1; continue }
        if out.syllables[i - 1] == out.syllables[i + 1] { out.syllables[i].stress = asca::verif::StressKind::Primary; f += 1 } else { rj += 1 }
    }
    (out, f, rj)
}
fn model_haplology(w: &Word) -> (Word, usize, usize) {
    let mut keep: Vec<asca::verif::Syllable> = Vec::new(); let (mut f, mut rj) = (0, 0);
    for s in &w.syllables { if keep.last() == Some(s) { f += 1 } else { keep.push(s.clone()); rj += 1 } }
    (asca::verif::word_from_syllables(keep), f, rj)
}

pub fn judge(rep: &mut Report, c: &Case) {
    rep.eval(1);
    let Ok(w) = parse_word(&c.word) else { rep.obs("word_rejected", 1); return };
    if w.syllables.is_empty() { return }
    let rules = match compile1(&c.rule) { Ok(x) => x, Err(Applied::Abort(s)) => { rep.abort(s, || c.json()); return } Err(_) => { rep.obs("rule_rejected", 1); return } };
    let got = match apply(&rules, &w) { Applied::Ok(g) => g, Applied::Abort(s) => { rep.abort(s, || c.json()); return }
        Applied::Err(e) => {
            rep.obs("returned_err", 1);
            // the variable-identity rules and the context-variable rules are valid by construction (every variable is bound before it is
            // used, outputs are bare variables): an error at application time is a failure to reproduce what was captured
            if c.family.starts_with("var-identity") || c.family.starts_with("var-context") { let fam = c.family.clone(); rep.violation(format!("{fam}:fails-when-applied"), || json!({"case": c.json(), "observed": e})); }
            return
        } };
    rep.obs("returned_ok", 1);
    let fam = c.family.as_str();
    if fam.starts_with("var-identity") || fam.starts_with("alpha-identity") {
        if got != w {
            // narrow the signature to what was being copied and where it started from
            let detail = if fam == "alpha-identity:stress" { let sec = w.syllables.iter().zip(&got.syllables).any(|(a, b)| sw::stress_code(a.stress) == 2 && sw::stress_code(b.stress) == 1); if sec && w.syllables.iter().zip(&got.syllables).all(|(a, b)| a.segments == b.segments && a.tone == b.tone && (a.stress == b.stress || (sw::stress_code(a.stress) == 2 && sw::stress_code(b.stress) == 1))) { ":secondary-became-primary" } else { "" } } else { "" };
            rep.violation(format!("{fam}{detail}"), || json!({"case": c.json(), "expected": sw::dump_json(&w), "observed": sw::dump_json(&got)}));
            return;
        }
        // did it match at all?  same input, output replaced by a visible marker
        let marker = if fam.contains("syllable") || c.rule.starts_with("%") { "[tone: 9]" } else { "[+stress]" };
        let head = c.rule.split(" > ").next().unwrap_or("");
        let tail = c.rule.split(" > ").nth(1).map(|t| t.find(" / ").or(t.find(" | ")).map(|i| t[i..].to_string()).unwrap_or_default()).unwrap_or_default();
        let k = head.split(' ').filter(|x| !x.is_empty()).count().max(1);
        let mrule = format!("{head} > {}{tail}", vec![marker; k].join(" "));
        if let Ok(mr) = compile1(&mrule) { if let Applied::Ok(g2) = apply(&mr, &w) { if g2 != w { rep.nontrivial(hash64(&(&c.rule, &c.word))); if rep.samples.len() < 6 { let v = c.json(); rep.sample(|| v); } } } }
    } else {
        let m = match fam { "alpha-agreement" => model_alpha_agreement(c, &w), "var-context:segment" => model_segment_ctx(c, &w), "var-context:syllable" => Some(model_syllable_ctx(&w)), _ => Some(model_haplology(&w)) };
        let Some((exp, fired, rejected)) = m else { rep.obs("discarded_equal_neighbours", 1); return };
        if got != exp { rep.violation(fam.to_string(), || json!({"case": c.json(), "expected": sw::dump_json(&exp), "observed": sw::dump_json(&got)})); return }
        if fired > 0 && rejected > 0 { rep.nontrivial(hash64(&(&c.rule, &c.word))); if rep.samples.len() < 9 { let v = json!({"rule": c.rule, "word": c.word, "result": sw::render(&got)}); rep.sample(|| v); } }
        if fired > 0 { rep.obs("context_rules_fired", 1); }
    }
}

pub fn explore(ctx: &Ctx, shard: usize, n: usize) -> Report {
    drive::cases(ctx, shard, n, RULE, 0x07, 200_000, 60_000_000, |r, rep, _| { let c = gen(r); judge(rep, &c); })
}

pub fn replay(_ctx: &Ctx, v: &Value) -> Report {
    let mut rep = Report::new(RULE);
    judge(&mut rep, &Case { family: jstr(v, "family"), rule: jstr(v, "rule"), word: jstr(v, "word"), a: jstr(v, "a"), b: jstr(v, "b"), x: jstr(v, "x") });
    rep
}
