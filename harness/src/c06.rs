//! C06 – a rule that cannot match leaves the word untouched.
use crate::gen::*;
use crate::{drive, report::Report, run::*, sw, util::*, Ctx};
use serde_json::{json, Value};

const RULE: &str = "rules from the full-grammar generator (substitution, deletion, insertion, metathesis; sets, optionals, ellipses, structures, variables, alphas, environment sets, condensed rules) into which a reserved segment that the word generator never emits is planted as a mandatory top-level element of every input alternative (insertion: of the context), x generated words: whenever the call returns Ok the structural word must be unchanged; blank and comment-only lines likewise. Non-trivial = the same rule WITHOUT the plant changes this word (so the plant is what stops it); distinct = distinct (rule, word).";

/// never produced by gen::rand_word / rand_seg
pub const RESERVED: [&str; 5] = ["ɸ", "ʙ", "ɥ", "ɰ", "ʡ"];

pub struct Case { pub rule: String, pub unplanted: String, pub word: String }

fn plant_into(els: &mut Vec<El>, r: &mut Rng, p: &str) {
    // not between an ellipsis and the edge (an ellipsis may not start or end a side)
    let i = r.below(els.len() + 1);
    els.insert(i, El::Ipa(p.to_string(), None));
}

pub fn plant(rule: &Rule, r: &mut Rng) -> Rule {
    let p = r.pick(&RESERVED).to_string();
    let mut out = rule.clone();
    if rule.is_insertion() {
        // the context of an insertion is a single environment
        match &mut out.ctx {
            EnvBlock::List(v) => for spec in v.iter_mut() { match spec { EnvSpec::One(e) => { if r.chance(1, 2) { plant_env(&mut e.before, r, &p, true) } else { plant_env(&mut e.after, r, &p, false) } } EnvSpec::Set(es) => for e in es.iter_mut() { plant_env(&mut e.before, r, &p, true) } } },
            EnvBlock::Special(x) => plant_into(x, r, &p),
            EnvBlock::None => {}
        }
    } else if matches!(&out.ctx, EnvBlock::List(v) if !v.is_empty()) && r.chance(1, 3) {
        // a context is as mandatory as the input: the absent segment goes into every alternative of the context instead
        if let EnvBlock::List(v) = &mut out.ctx { for spec in v.iter_mut() { match spec { EnvSpec::One(e) => { if r.chance(1, 2) { plant_env(&mut e.before, r, &p, true) } else { plant_env(&mut e.after, r, &p, false) } } EnvSpec::Set(es) => for e in es.iter_mut() { if r.chance(1, 2) { plant_env(&mut e.before, r, &p, true) } else { plant_env(&mut e.after, r, &p, false) } } } } }
    } else {
        for t in out.input.iter_mut() { if let Term::Els(els) = t { plant_into(els, r, &p) } }
    }
    out
}
fn plant_env(side: &mut Vec<El>, r: &mut Rng, p: &str, before: bool) {
    // keep `#` at the periphery
    let lo = if before && side.first() == Some(&El::WordB) { 1 } else { 0 };
    let hi = if !before && side.last() == Some(&El::WordB) { side.len() - 1 } else { side.len() };
    let i = lo + r.below(hi - lo + 1);
    // a third of the time the absent segment is a member of a structure (every member of a structure is mandatory): of one that is
    // there already, or of a new `⟨C V x⟩` / `⟨x V⟩` / `⟨C x⟩`
    if r.chance(1, 3) {
        if let Some(El::Struct(items, _, _)) = side.iter_mut().find(|e| matches!(e, El::Struct(..))) { items.push(El::Ipa(p.to_string(), None)); return }
        let items = match r.below(3) { 0 => vec![El::Grp('C', None, None), El::Grp('V', None, None), El::Ipa(p.to_string(), None)], 1 => vec![El::Ipa(p.to_string(), None), El::Grp('V', None, None)], _ => vec![El::Grp('C', None, None), El::Ipa(p.to_string(), None)] };
        side.insert(i, El::Struct(items, None, None));
        return;
    }
    side.insert(i, El::Ipa(p.to_string(), None));
}

pub(crate) fn gen(r: &mut Rng) -> Case {
    // one case in twelve: the absent segment right after an input set that has a boundary or syllable member (seed C06-e: a set that
    // matched through `$` moved the cursor twice and the element after it was never compared)
    if r.chance(1, 12) {
        let pre = *r.pick(&["", "a ", "V ", "C ", "[+voice] "][..]);
        let set = *r.pick(&["{$, t}", "{t, $}", "{$, C}", "{V, $}", "{$, %}", "{%, k}", "{$}"][..]);
        let post = *r.pick(&["", "", " a", " C"][..]);
        let out = *r.pick(&["*", "&", "*"][..]);
        let tail = *r.pick(&["", " / _#", " / V_", " | #_"][..]);
        let p = *r.pick(&RESERVED);
        let word = if r.chance(1, 2) { rand_echo_word(r, &WordCfg::default()) } else { rand_word(r, &WordCfg::default()) };
        return Case { rule: format!("{pre}{set} {p}{post} > {out}{tail}"), unplanted: format!("{pre}{set}{post} > {out}{tail}"), word };
    }
    let rule = rand_rule(r, &RuleCfg::default());
    let planted = plant(&rule, r);
    // a quarter of the words are built from recurring syllables, so that inputs with back-references (`%=1 1`, `C=1 V 1`) match
    // and a third are instantiated from the rule itself (before the plant went in), so that everything but the plant matches
    let word = match r.below(12) { 0..=2 => rand_echo_word(r, &WordCfg::default()), 3..=6 => witness_word(&rule, r).unwrap_or_else(|| rand_word(r, &WordCfg::default())), _ => rand_word(r, &WordCfg::default()) };
    Case { rule: plain(&planted), unplanted: plain(&rule), word }
}

pub fn judge(rep: &mut Report, c: &Case) {
    rep.eval(1);
    let cj = || json!({"rule": c.rule, "unplanted": c.unplanted, "word": c.word});
    let Ok(w) = parse_word(&c.word) else { rep.obs("word_rejected", 1); return };
    let rules = match compile1(&c.rule) { Ok(x) => x, Err(Applied::Abort(s)) => { rep.abort(s, cj); return } Err(_) => { rep.obs("rule_rejected", 1); return } };
    match apply(&rules, &w) {
        Applied::Ok(g) => {
            rep.obs("returned_ok", 1);
            if g != w {
                let kind = if c.rule.starts_with("* ") || c.rule.starts_with("∅") { "insertion" } else if c.rule.contains("> &") { "metathesis" } else if c.rule.contains("> *") { "deletion" } else { "substitution" };
                let ell = if c.rule.split(['>']).next().unwrap_or("").contains("...") { "+ellipsis-in-input" } else { "" };
                rep.violation(format!("changed:{kind}{ell}"), || json!({"case": cj(), "expected": sw::dump_json(&w), "observed": sw::dump_json(&g)}));
                return;
            }
            // is the plant what stops the rule?
            if let Ok(un) = compile1(&c.unplanted) { if let Applied::Ok(g2) = apply(&un, &w) { if g2 != w { rep.nontrivial(hash64(&(&c.rule, &c.word))); if rep.samples.len() < 5 { let v = json!({"rule": c.rule, "word": c.word, "without_plant_gives": sw::render(&g2)}); rep.sample(|| v); } } } }
        }
        Applied::Err(_) => rep.obs("returned_err", 1),
        Applied::Abort(s) => rep.abort(s, cj),
    }
}

pub fn explore(ctx: &Ctx, shard: usize, n: usize) -> Report {
    let mut rep = drive::cases(ctx, shard, n, RULE, 0x06, 300_000, 80_000_000, |r, rep, _| { let c = gen(r); judge(rep, &c); });
    // blank and comment-only lines
    if shard == 0 {
        let mut r = Rng::new(ctx.seed, 0x0606);
        for _ in 0..2000 {
            let w = rand_word(&mut r, &WordCfg::default());
            let line = ["", "   ", ";; a comment", " ;; a > e", "\t"][r.below(5)].to_string();
            rep.eval(1);
            if let Ok(word) = parse_word(&w) {
                let rules = match compile1(&line) { Ok(x) => x, Err(e) => { let t = e.tag(); let l2 = line.clone(); rep.violation("blank-or-comment-line-rejected".into(), || json!({"case": {"rule": l2, "unplanted": l2, "word": w}, "observed": t})); continue } };
                match apply(&rules, &word) { Applied::Err(e) => { let l2 = line.clone(); rep.violation("blank-or-comment-line-fails".into(), || json!({"case": {"rule": l2, "unplanted": l2, "word": w}, "observed": e})); } Applied::Abort(_) => {} Applied::Ok(g) => if g != word { rep.violation("blank-or-comment-line-changed-the-word".into(), || json!({"case": {"rule": line, "unplanted": line, "word": w}})); } else { rep.obs("blank_lines_ok", 1); } }
            }
        }
    }
    rep
}

pub fn replay(_ctx: &Ctx, case: &Value) -> Report {
    let mut rep = Report::new(RULE);
    judge(&mut rep, &Case { rule: jstr(case, "rule"), unplanted: jstr(case, "unplanted"), word: jstr(case, "word") });
    rep
}
