//! C16 – the trace tells the same story as the run (public API only).
use crate::gen::*;
use crate::isol::{guard, Outcome, DEFAULT_BUDGET};
use crate::{drive, report::Report, run::*, util::*, Ctx};
use asca::RuleGroup;
use serde_json::{json, Value};

const RULE: &str = "1-8 named rule groups (0-2 generated rules each, incl. empty groups, comment-only lines and no-op rules) x phrases of 1-3 generated words: trace_changes must report strictly increasing group indices, exactly the groups whose application changed the phrase (groups whose second rule undoes the first are planted on purpose; a reported group whose rendering is unchanged is looked up through the structural hook), each with the phrase as run(G0..Gi) returns it; the last state (or the input) must equal run(G); get_trace_string must print the same sequence with the groups' names; when a rule errors both calls must fail. Non-trivial = at least one group reported and at least one group not reported; distinct = distinct (groups, phrase).";

/// `into`: deromanisers handed to the trace and to the plain runs alike (the phrase then uses their strings)
pub struct Case { pub groups: Vec<Vec<String>>, pub phrase: String, pub into: Vec<String> }

pub(crate) fn gen(r: &mut Rng) -> Case {
    let cfg = RuleCfg { max_side: 2, ..RuleCfg::default() };
    let ng = r.range(1, 8);
    let mut groups = Vec::new();
    for _ in 0..ng {
        let mut g = Vec::new();
        // a group whose second rule undoes its first: the phrase is the same after the group, so it must not be reported
        if r.chance(1, 6) {
            let v = r.pick(&VOWS[..5]).to_string(); let c = r.pick(&CONS[..12]).to_string();
            let pair: [String; 2] = match r.below(5) { 0 => [format!("{v} > ʙ"), format!("ʙ > {v}")], 1 => ["* > ʙ / _#".into(), "ʙ > * / _#".into()], 2 => [format!("{c} > ɥ / _V"), format!("ɥ > {c}")], 3 => ["% > [tone: 9999] / #_".into(), "%:[tone: 9999] > [tone: 0]".into()], _ => [format!("{v} > ɰ {v}"), "ɰ > *".into()] };
            groups.push(pair.to_vec());
            continue;
        }
        for _ in 0..r.below(3) {
            g.push(match r.below(12) { 0 => ";; just a comment".to_string(), 1 => String::new(), 2 => "x > x".to_string(), _ => plain(&rand_rule(r, &cfg)) });
        }
        groups.push(g);
    }
    let wc = WordCfg::default();
    let mut phrase = (0..r.range(1, 3)).map(|_| rand_word(r, &wc)).collect::<Vec<_>>().join(" ");
    let into: Vec<String> = if r.chance(1, 6) { vec!["Ж > ʒ".to_string(), "ш > ʃ:[+long]".to_string()] } else { vec![] };
    if !into.is_empty() { phrase = phrase.replacen(['s', 'z', 'ʃ'], "Ж", 1).replacen(['f', 'x', 'h'], "ш", 1); }
    Case { groups, phrase, into }
}

fn rgroups(c: &Case) -> Vec<RuleGroup> { c.groups.iter().enumerate().map(|(i, g)| RuleGroup::from(format!("group {i}"), g.clone(), String::new())).collect() }

pub fn judge(rep: &mut Report, c: &Case) {
    let gs = rgroups(c);
    let cj = || json!({"groups": c.groups, "phrase": c.phrase, "into": c.into});
    rep.eval(1);
    let run_prefix = |k: usize| run_pub(&gs[..k], &[c.phrase.clone()], &c.into, &[]);
    let full = run_prefix(gs.len());
    let trace = match guard(DEFAULT_BUDGET, || asca::trace_changes(&gs, c.phrase.clone(), &c.into)) {
        Outcome::Done(Ok(t)) => Ok(t), Outcome::Done(Err(e)) => Err(err_kind(&e)),
        o => { rep.abort(o.abort_sig().unwrap_or_default(), cj); return }
    };
    let tstr = match guard(DEFAULT_BUDGET, || asca::get_trace_string(&gs, c.phrase.clone(), &c.into)) {
        Outcome::Done(Ok(t)) => Ok(t), Outcome::Done(Err(e)) => Err(err_kind(&e)),
        o => { rep.abort(o.abort_sig().unwrap_or_default(), cj); return }
    };
    match (&full, &trace) {
        (Err(Applied::Abort(s)), _) => { rep.abort(s.clone(), cj); return }
        (Err(e), Ok(_)) => { let t = e.tag(); rep.violation("run-fails-trace-succeeds".into(), || json!({"case": cj(), "observed": t})); return }
        (Ok(_), Err(k)) => { rep.violation("trace-fails-run-succeeds".into(), || json!({"case": cj(), "observed": k})); return }
        (Err(_), Err(_)) => { rep.obs("both_fail", 1); if tstr.is_ok() { rep.violation("trace-string-succeeds-though-run-fails".into(), || json!({"case": cj()})); } return }
        _ => {}
    }
    let (full, trace) = (full.ok().unwrap(), trace.ok().unwrap());
    // states after every prefix, from plain runs
    let mut states: Vec<String> = Vec::new();
    let start = match run_prefix(0) { Ok(v) => v[0].clone(), Err(e) => { rep.abort(e.tag(), cj); return } };
    for k in 1..=gs.len() { match run_prefix(k) { Ok(v) => states.push(v[0].clone()), Err(e) => { let t = e.tag(); rep.violation("prefix-run-fails-though-full-run-succeeds".into(), || json!({"case": cj(), "prefix": k, "observed": t})); return } } }
    let render = |ch: &asca::Change| -> String { ch.after.iter().map(|w| asca::verif::render_word(w, &[]).unwrap_or_default()).collect::<Vec<_>>().join(" ") };
    let mut prev_idx: Option<usize> = None;
    let mut reported = vec![false; gs.len()];
    for ch in &trace {
        if let Some(p) = prev_idx { if ch.rule_index <= p { rep.violation("indices-not-increasing".into(), || json!({"case": cj(), "observed": trace.iter().map(|c| c.rule_index).collect::<Vec<_>>()})); return } }
        prev_idx = Some(ch.rule_index);
        if ch.rule_index >= gs.len() { rep.violation("index-out-of-range".into(), || json!({"case": cj(), "observed": ch.rule_index})); return }
        reported[ch.rule_index] = true;
        let got = render(ch);
        // (run trims the end of the line; a word reduced to nothing leaves a trailing space in the trace's rendering - C08's business)
        if got.trim_end() != states[ch.rule_index].trim_end() { rep.violation("reported-state-differs-from-prefix-run".into(), || json!({"case": cj(), "group": ch.rule_index, "expected": states[ch.rule_index], "observed": got})); return }
    }
    for i in 0..gs.len() {
        let before = if i == 0 { &start } else { &states[i - 1] };
        let changed = *before != states[i];
        if changed && !reported[i] { rep.violation("changing-group-not-reported".into(), || json!({"case": cj(), "group": i, "before": before, "after": states[i]})); return }
        if !changed && reported[i] {
            // a group may change the structural word without changing its rendering (the renderer is not injective), which is a
            // change and may be reported; the structural hook tells the two apart: reported although nothing changed = violation
            let structurally_same = (|| {
                let pr = compile_groups(&gs[..=i]).ok()?;
                for wtxt in c.phrase.split(' ') { let w = parse_word(wtxt).ok()?; let st = apply_all(&pr, &w).ok()?; let before = if i == 0 { w.clone() } else { st[i - 1].clone() }; if st[i] != before { return Some(false) } }
                Some(true)
            })();
            if structurally_same == Some(true) { rep.violation("reported-group-did-not-change-the-phrase".into(), || json!({"case": cj(), "group": i, "state": states[i]})); return }
            rep.obs("reported_group_with_identical_rendering", 1);
        }
    }
    let last = trace.last().map(render).unwrap_or(start.clone());
    if last.trim_end() != full[0].trim_end() { rep.violation("last-state-differs-from-run".into(), || json!({"case": cj(), "expected": full[0], "observed": last})); return }
    // printed trace
    match tstr {
        Ok(lines) => {
            let mut exp: Vec<String> = Vec::new(); let mut lastw = format!("{start} ");
            // the printed trace renders every word followed by a space
            let sp = |s: &str| format!("{s} ");
            for ch in &trace { exp.push(format!("Applied \"{}\":", gs[ch.rule_index].name)); let a = sp(&render(ch)); exp.push(format!("{lastw}=> {a}")); lastw = a; }
            if lines != exp { rep.violation("printed-trace-differs".into(), || json!({"case": cj(), "expected": exp, "observed": lines})); return }
        }
        Err(k) => { rep.violation("trace-string-fails-though-run-succeeds".into(), || json!({"case": cj(), "observed": k})); return }
    }
    let nrep = reported.iter().filter(|x| **x).count();
    rep.obs("groups_reported", nrep as u64);
    if nrep > 0 && nrep < gs.len() { rep.nontrivial(hash64(&(&c.groups, &c.phrase))); if rep.samples.len() < 4 { let v = json!({"groups": c.groups, "phrase": c.phrase, "reported_groups": trace.iter().map(|c| c.rule_index).collect::<Vec<_>>(), "final": full[0]}); rep.sample(|| v); } }
}

pub fn explore(ctx: &Ctx, shard: usize, n: usize) -> Report {
    drive::cases(ctx, shard, n, RULE, 0x16, 50_000, 6_000_000, |r, rep, _| { let c = gen(r); judge(rep, &c); })
}

pub fn replay(_ctx: &Ctx, case: &Value) -> Report {
    let mut rep = Report::new(RULE);
    let groups = case["groups"].as_array().map(|a| a.iter().map(|g| g.as_array().map(|x| x.iter().map(|s| s.as_str().unwrap_or("").to_string()).collect()).unwrap_or_default()).collect()).unwrap_or_default();
    judge(&mut rep, &Case { groups, phrase: jstr(case, "phrase"), into: jstrs(case, "into") });
    rep
}
