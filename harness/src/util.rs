//! Small shared helpers: deterministic RNG, hashing, JSON shortcuts.
use serde_json::{json, Value};
use std::hash::{Hash, Hasher};

#[derive(Clone)]
pub struct Rng(pub u64);

impl Rng {
    /// Independent stream per (seed, stream id): any case is reproducible from two integers.
    pub fn new(seed: u64, stream: u64) -> Self {
        let mut z = seed.wrapping_mul(0x9E3779B97F4A7C15) ^ stream.wrapping_mul(0xD1B54A32D192ED03) ^ 0x2545F4914F6CDD1D;
        // splitmix scramble so that neighbouring streams are unrelated
        z = (z ^ (z >> 30)).wrapping_mul(0xBF58476D1CE4E5B9);
        z = (z ^ (z >> 27)).wrapping_mul(0x94D049BB133111EB);
        z ^= z >> 31;
        if z == 0 { z = 0x1234567 }
        Rng(z)
    }
    pub fn next(&mut self) -> u64 {
        self.0 ^= self.0 << 13;
        self.0 ^= self.0 >> 7;
        self.0 ^= self.0 << 17;
        self.0.wrapping_mul(0x2545F4914F6CDD1D)
    }
    pub fn below(&mut self, n: usize) -> usize { if n == 0 { 0 } else { (self.next() % n as u64) as usize } }
    pub fn range(&mut self, lo: usize, hi: usize) -> usize { lo + self.below(hi - lo + 1) }
    pub fn chance(&mut self, num: usize, den: usize) -> bool { self.below(den) < num }
    pub fn pick<'a, T>(&mut self, v: &'a [T]) -> &'a T { &v[self.below(v.len())] }
    pub fn shuffle<T>(&mut self, v: &mut [T]) { for i in (1..v.len()).rev() { let j = self.below(i + 1); v.swap(i, j); } }
}

pub fn hash64<T: Hash>(t: &T) -> u64 {
    let mut h = Fnv(0xcbf29ce484222325);
    t.hash(&mut h);
    h.finish()
}

pub struct Fnv(pub u64);
impl Hasher for Fnv {
    fn finish(&self) -> u64 { let mut z = self.0; z ^= z >> 33; z = z.wrapping_mul(0xff51afd7ed558ccd); z ^= z >> 33; z }
    fn write(&mut self, bytes: &[u8]) { for b in bytes { self.0 ^= *b as u64; self.0 = self.0.wrapping_mul(0x100000001b3); } }
}

pub fn strs(v: &[String]) -> Value { json!(v) }

pub fn jstr(v: &Value, k: &str) -> String { v.get(k).and_then(|x| x.as_str()).unwrap_or("").to_string() }
pub fn jstrs(v: &Value, k: &str) -> Vec<String> {
    v.get(k).and_then(|x| x.as_array()).map(|a| a.iter().map(|s| s.as_str().unwrap_or("").to_string()).collect()).unwrap_or_default()
}
pub fn ju64(v: &Value, k: &str) -> u64 { v.get(k).and_then(|x| x.as_u64()).unwrap_or(0) }
pub fn ji64(v: &Value, k: &str) -> i64 { v.get(k).and_then(|x| x.as_i64()).unwrap_or(0) }

pub fn groups_of(rules: &[String]) -> Vec<asca::RuleGroup> {
    rules.iter().map(|r| asca::RuleGroup::from_rules(vec![r.clone()])).collect()
}
pub fn one_group(rules: &[String]) -> Vec<asca::RuleGroup> { vec![asca::RuleGroup::from_rules(rules.to_vec())] }

/// Kind of an error (never its text): enum name + variant name.
pub fn err_kind(e: &asca::Error) -> String {
    let outer = match e {
        asca::Error::WordSyn(_) => "WordSyn", asca::Error::WordRun(_) => "WordRun",
        asca::Error::AliasSyn(_) => "AliasSyn", asca::Error::AliasRun(_) => "AliasRun",
        asca::Error::RuleSyn(_) => "RuleSyn", asca::Error::RuleRun(_) => "RuleRun",
    };
    let dbg = match e {
        asca::Error::WordSyn(x) => format!("{x:?}"), asca::Error::WordRun(x) => format!("{x:?}"),
        asca::Error::AliasSyn(x) => format!("{x:?}"), asca::Error::AliasRun(x) => format!("{x:?}"),
        asca::Error::RuleSyn(x) => format!("{x:?}"), asca::Error::RuleRun(x) => format!("{x:?}"),
    };
    let variant: String = dbg.chars().take_while(|c| c.is_alphanumeric() || *c == '_').collect();
    format!("{outer}::{variant}")
}
