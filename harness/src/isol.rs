//! Case isolation: every execution of real code runs under `guard`, which sets the step
//! budget, catches unwinding and classifies the outcome. Panics and budget exhaustion are
//! *recorded* by every monitor but are a verdict only for C02.
use std::cell::RefCell;
use std::panic::{self, AssertUnwindSafe};
use asca::verif;

#[derive(Clone, Debug)]
pub struct PanicSite { pub file: String, pub line: u32, pub msg: String, pub func: String }

thread_local! { static LAST: RefCell<Option<PanicSite>> = const { RefCell::new(None) }; static LAST_TICKS: std::cell::Cell<u64> = const { std::cell::Cell::new(0) }; }

/// ticks consumed by the most recent `guard` on this thread
pub fn last_ticks() -> u64 { LAST_TICKS.with(|c| c.get()) }

pub fn install_hook() {
    panic::set_hook(Box::new(|info| {
        let (file, line) = info.location().map(|l| (l.file().to_string(), l.line())).unwrap_or_default();
        let msg = if let Some(s) = info.payload().downcast_ref::<&str>() { s.to_string() }
                  else if let Some(s) = info.payload().downcast_ref::<String>() { s.clone() } else { "?".into() };
        // budget exhaustion is not a defect of the code under test: no backtrace needed (and they are frequent)
        // a panic that cannot unwind (the standard library's UB checks, a panic inside a destructor) aborts the process:
        // no monitor will get to report it, so say what it was on stderr for the orchestrator
        if msg.contains("unsafe precondition") || msg.contains("cannot unwind") { eprintln!("NON-UNWINDING PANIC at {file}:{line}: {msg}"); }
        let func = if msg.starts_with("VERIF_BUDGET") { String::new() } else { innermost_asca_fn(&format!("{}", std::backtrace::Backtrace::force_capture())) };
        LAST.with(|l| *l.borrow_mut() = Some(PanicSite { file, line, msg, func }));
    }));
}

pub enum Outcome<T> {
    Done(T),
    /// unwound; signature identifies the site robustly against line shifts
    Panic { sig: String, site: PanicSite },
    /// step budget exhausted at tick site
    Budget { site: u16, hot: Vec<(usize, u64)> },
}

impl<T> Outcome<T> {
    pub fn done(self) -> Option<T> { if let Outcome::Done(t) = self { Some(t) } else { None } }
    pub fn abort_sig(&self) -> Option<String> {
        match self {
            Outcome::Done(_) => None,
            Outcome::Panic { sig, .. } => Some(format!("panic {sig}")),
            Outcome::Budget { hot, .. } => Some(format!("budget {}", hot_sig(hot))),
        }
    }
}

pub fn hot_sig(hot: &[(usize, u64)]) -> String {
    let mut ids: Vec<usize> = hot.iter().take(3).map(|x| x.0).collect();
    ids.sort();
    format!("hot={ids:?}")
}

pub const DEFAULT_BUDGET: u64 = 3_000_000;

pub fn guard<T>(budget: u64, f: impl FnOnce() -> T) -> Outcome<T> {
    verif::set_budget(budget);
    verif::reset_sites();
    LAST.with(|l| *l.borrow_mut() = None);
    let r = panic::catch_unwind(AssertUnwindSafe(f));
    LAST_TICKS.with(|c| c.set(verif::ticks()));
    verif::set_budget(u64::MAX);
    match r {
        Ok(t) => Outcome::Done(t),
        Err(_) => {
            let site = LAST.with(|l| l.borrow_mut().take()).unwrap_or(PanicSite { file: "?".into(), line: 0, msg: "?".into(), func: "?".into() });
            if let Some(rest) = site.msg.strip_prefix("VERIF_BUDGET site=") {
                let hits = verif::site_hits();
                let mut hot: Vec<(usize, u64)> = hits.iter().cloned().enumerate().filter(|x| x.1 > 0).collect();
                hot.sort_by(|a, b| b.1.cmp(&a.1).then(a.0.cmp(&b.0)));
                hot.truncate(8);
                Outcome::Budget { site: rest.trim().parse().unwrap_or(0), hot }
            } else {
                Outcome::Panic { sig: site_signature(&site), site }
            }
        }
    }
}

/// The innermost function of the code under test on the panicking stack (from the symbolised backtrace):
/// the first frame that is neither the panic machinery / std / a dependency nor this harness.
fn innermost_asca_fn(bt: &str) -> String {
    let lines: Vec<&str> = bt.lines().collect();
    let mut i = 0;
    while i < lines.len() {
        let l = lines[i].trim();
        let Some(k) = l.find(": ") else { i += 1; continue };
        if !l[..k].chars().all(|c| c.is_ascii_digit()) { i += 1; continue }
        let name = &l[k + 2..];
        let at = if i + 1 < lines.len() && lines[i + 1].trim().starts_with("at ") { lines[i + 1].trim()[3..].to_string() } else { String::new() };
        i += if at.is_empty() { 1 } else { 2 };
        let foreign_name = ["std::", "core::", "alloc::", "__rustc", "<", "{closure", "rust_", "serde", "hashbrown::"].iter().any(|p| name.starts_with(p));
        let foreign_path = at.contains("/rustc/") || at.contains("/verif/harness/") || at.contains("/.cargo/") || at.contains("/registry/");
        if foreign_name || foreign_path { continue }
        if name.starts_with("vharness::") || name == "main" { break }
        let file = at.rsplit("/src/").next().map(|x| x.split(':').next().unwrap_or("").to_string()).unwrap_or_default();
        let short = name.split('<').next().unwrap_or(name).rsplit("::").next().unwrap_or(name);
        let _ = file;
        return short.to_string();
    }
    if std::env::var("VERIF_DEBUG_BT").is_ok() { eprintln!("{bt}"); }
    "?".into()
}

fn msg_class(msg: &str) -> String {
    let m = msg;
    if m.starts_with("index out of bounds") || m.contains("Out of bounds access") || m.contains("out of bounds") || m.starts_with("insertion index") || m.starts_with("removal index") || m.contains("range end index") || m.contains("range start index") { "index-out-of-bounds".into() }
    else if m.contains("attempt to") && m.contains("overflow") { "arithmetic-overflow".into() }
    else if m.contains("`Option::unwrap()` on a `None`") { "unwrap-none".into() }
    else if m.contains("`Result::unwrap()` on an `Err`") { "unwrap-err".into() }
    else if m.starts_with("assertion") { "assertion".into() }
    else if m.contains("unreachable") { "unreachable".into() }
    else if m.contains("not implemented") { "unimplemented".into() }
    else { let mut s = String::new(); let mut last_digit = false; for c in m.chars().take(60) { if c.is_ascii_digit() { if !last_digit { s.push('N') } last_digit = true } else { last_digit = false; s.push(if c == '\n' { ' ' } else { c }) } } s }
}

/// `innermost function of the code under test :: class of the panic message` – function-level call site,
/// robust to line shifts and to the same defect tripping a different check in another build profile.
pub fn site_signature(s: &PanicSite) -> String {
    format!("fn={} :: {}", s.func, msg_class(&s.msg))
}
