//! Case isolation: every execution of real code runs under `guard`, which sets the step
//! budget, catches unwinding and classifies the outcome. Panics and budget exhaustion are
//! *recorded* by every monitor but are a verdict only for C02.
use std::cell::RefCell;
use std::panic::{self, AssertUnwindSafe};
use asca::verif;

#[derive(Clone, Debug)]
pub struct PanicSite { pub file: String, pub line: u32, pub msg: String }

thread_local! { static LAST: RefCell<Option<PanicSite>> = const { RefCell::new(None) }; }

pub fn install_hook() {
    panic::set_hook(Box::new(|info| {
        let (file, line) = info.location().map(|l| (l.file().to_string(), l.line())).unwrap_or_default();
        let msg = if let Some(s) = info.payload().downcast_ref::<&str>() { s.to_string() }
                  else if let Some(s) = info.payload().downcast_ref::<String>() { s.clone() } else { "?".into() };
        LAST.with(|l| *l.borrow_mut() = Some(PanicSite { file, line, msg }));
    }));
}

pub enum Outcome<T> {
    Done(T),
    /// unwound; signature identifies the site robustly against line shifts
    Panic { sig: String, site: PanicSite },
    /// step budget exhausted at tick site
    Budget { site: u16, hot: Vec<(usize, u64)> },
}

impl<T> Outcome<T> {
    pub fn done(self) -> Option<T> { if let Outcome::Done(t) = self { Some(t) } else { None } }
    pub fn abort_sig(&self) -> Option<String> {
        match self {
            Outcome::Done(_) => None,
            Outcome::Panic { sig, .. } => Some(format!("panic {sig}")),
            Outcome::Budget { hot, .. } => Some(format!("budget {}", hot_sig(hot))),
        }
    }
}

pub fn hot_sig(hot: &[(usize, u64)]) -> String {
    let mut ids: Vec<usize> = hot.iter().take(3).map(|x| x.0).collect();
    ids.sort();
    format!("hot={ids:?}")
}

pub const DEFAULT_BUDGET: u64 = 3_000_000;

pub fn guard<T>(budget: u64, f: impl FnOnce() -> T) -> Outcome<T> {
    verif::set_budget(budget);
    verif::reset_sites();
    LAST.with(|l| *l.borrow_mut() = None);
    let r = panic::catch_unwind(AssertUnwindSafe(f));
    verif::set_budget(u64::MAX);
    match r {
        Ok(t) => Outcome::Done(t),
        Err(_) => {
            let site = LAST.with(|l| l.borrow_mut().take()).unwrap_or(PanicSite { file: "?".into(), line: 0, msg: "?".into() });
            if let Some(rest) = site.msg.strip_prefix("VERIF_BUDGET site=") {
                let hits = verif::site_hits();
                let mut hot: Vec<(usize, u64)> = hits.iter().cloned().enumerate().filter(|x| x.1 > 0).collect();
                hot.sort_by(|a, b| b.1.cmp(&a.1).then(a.0.cmp(&b.0)));
                hot.truncate(4);
                Outcome::Budget { site: rest.trim().parse().unwrap_or(0), hot }
            } else {
                Outcome::Panic { sig: site_signature(&site), site }
            }
        }
    }
}

/// `file :: normalised message :: hash of the trimmed source line` – robust to line shifts,
/// still distinguishes two `unwrap`s in one function.
pub fn site_signature(s: &PanicSite) -> String {
    let file = s.file.rsplit("/src/").next().map(|x| x.to_string()).unwrap_or(s.file.clone());
    let file = if s.file.contains("/src/") && !s.file.contains("/rustc/") && !s.file.contains("/library/") { format!("src/{file}") } else {
        // panic inside std / a dependency (e.g. VecDeque index): keep only the tail of the path
        s.file.rsplit('/').take(2).collect::<Vec<_>>().into_iter().rev().collect::<Vec<_>>().join("/")
    };
    let mut msg = String::new();
    let mut last_digit = false;
    for c in s.msg.chars().take(120) {
        if c.is_ascii_digit() { if !last_digit { msg.push('N'); } last_digit = true; } else { last_digit = false; msg.push(if c == '\n' { ' ' } else { c }); }
    }
    let line_txt = std::fs::read_to_string(&s.file).ok()
        .and_then(|t| t.lines().nth(s.line.saturating_sub(1) as usize).map(|l| l.trim().to_string()));
    let lh = match line_txt { Some(t) if !s.file.contains("/rustc/") => format!("{:08x}", crate::util::hash64(&t) as u32), _ => "-".to_string() };
    format!("{file} :: {msg} :: {lh}")
}
