//! C18 – the public Segment / Place accessors obey get/set laws (exhaustive, public API only).
use crate::{report::Report, util::*, Ctx};
use asca::{NodeKind, Place, Segment};
use serde_json::{json, Value};

const RULE: &str = "all 65 536 place values + None x 4 sub-nodes x every in-range value + None (setter laws); every well-formed place x 8 roots x 8 laryngeals x 4 manner bytes x 26 features x 2 polarities (set_feat/feat_match/get_feat laws) and all 256 manner bytes on a slice; a case is non-trivial when the setter changed the value; distinct = distinct (start, node, value) triples";

pub fn wf(x: Option<u16>) -> bool {
    match x {
        None => true,
        Some(p) => p & 0xf000 != 0
            && (p & 0x8000 != 0 || p & 0x0c00 == 0) && (p & 0x4000 != 0 || p & 0x0300 == 0)
            && (p & 0x2000 != 0 || p & 0x00fc == 0) && (p & 0x1000 != 0 || p & 0x0003 == 0),
    }
}
fn gets(p: &Place) -> [Option<u8>; 4] { [p.get_labial(), p.get_coronal(), p.get_dorsal(), p.get_pharyngeal()] }
fn is_some(p: &Place) -> [bool; 4] { [p.labial_is_some(), p.coronal_is_some(), p.dorsal_is_some(), p.pharyngeal_is_some()] }
fn set(p: &mut Place, i: usize, v: Option<u8>) { match i { 0 => p.set_labial(v), 1 => p.set_coronal(v), 2 => p.set_dorsal(v), _ => p.set_pharyngeal(v) } }
const MAXV: [u8; 4] = [3, 3, 63, 3];
const NODE: [&str; 4] = ["labial", "coronal", "dorsal", "pharyngeal"];
const SUB: [NodeKind; 4] = [NodeKind::Labial, NodeKind::Coronal, NodeKind::Dorsal, NodeKind::Pharyngeal];

pub const FEATS: [(NodeKind, u8, &str); 26] = [
    (NodeKind::Root, 4, "cons"), (NodeKind::Root, 2, "son"), (NodeKind::Root, 1, "syll"),
    (NodeKind::Manner, 128, "cont"), (NodeKind::Manner, 64, "approx"), (NodeKind::Manner, 32, "lat"), (NodeKind::Manner, 16, "nasal"),
    (NodeKind::Manner, 8, "delrel"), (NodeKind::Manner, 4, "strid"), (NodeKind::Manner, 2, "rhotic"), (NodeKind::Manner, 1, "click"),
    (NodeKind::Laryngeal, 4, "voice"), (NodeKind::Laryngeal, 2, "sg"), (NodeKind::Laryngeal, 1, "cg"),
    (NodeKind::Labial, 2, "labdent"), (NodeKind::Labial, 1, "round"), (NodeKind::Coronal, 2, "ant"), (NodeKind::Coronal, 1, "dist"),
    (NodeKind::Dorsal, 32, "front"), (NodeKind::Dorsal, 16, "back"), (NodeKind::Dorsal, 8, "hi"), (NodeKind::Dorsal, 4, "lo"), (NodeKind::Dorsal, 2, "tense"), (NodeKind::Dorsal, 1, "red"),
    (NodeKind::Pharyngeal, 2, "atr"), (NodeKind::Pharyngeal, 1, "rtr"),
];

fn place_case(rep: &mut Report, st: Option<u16>, i: usize, v: Option<u8>) {
    let mut p = Place::default(); *p = st;
    let before = gets(&p);
    let some_before = is_some(&p);
    for j in 0..4 { if some_before[j] != before[j].is_some() { rep.violation(format!("is_some-vs-get:{}", NODE[j]), || json!({"case": case_place(st, i, v), "expected": "x_is_some() == get_x().is_some()", "observed": format!("{:?} vs {:?}", some_before[j], before[j])})); } }
    set(&mut p, i, v);
    let after = gets(&p);
    rep.eval(1);
    if *p != st { rep.nontrivial_enum(1); }
    if after[i] != v {
        rep.violation(format!("get-after-set:{}", NODE[i]), || json!({"case": case_place(st, i, v), "expected": format!("{v:?}"), "observed": format!("{:?}", after[i])}));
    }
    for j in 0..4 { if j != i && after[j] != before[j] {
        rep.violation(format!("interference:{}->{}", NODE[i], NODE[j]), || json!({"case": case_place(st, i, v), "expected": format!("{:?}", before[j]), "observed": format!("{:?}", after[j])}));
    } }
    if wf(st) {
        if !wf(*p) { rep.violation(format!("not-closed:{}", NODE[i]), || json!({"case": case_place(st, i, v), "expected": "well-formed place", "observed": format!("{:?}", *p)})); }
        if after.iter().all(|x| x.is_none()) && p.is_some() { rep.violation(format!("empty-place-not-absent:{}", NODE[i]), || json!({"case": case_place(st, i, v), "expected": "None", "observed": format!("{:?}", *p)})); }
        if p.is_none() != !p.is_some() { rep.violation("is_none-vs-is_some".into(), || json!({"case": case_place(st, i, v)})); }
    }
}
fn case_place(st: Option<u16>, i: usize, v: Option<u8>) -> Value { json!({"kind": "place", "start": st, "node": i, "value": v}) }

fn seg_case(rep: &mut Report, s: Segment, fi: usize, pos: bool) {
    let (nk, mask, name) = FEATS[fi];
    let mut t = s;
    let node_before = t.get_node(nk);
    t.set_feat(nk, mask, pos);
    rep.eval(1);
    if t != s { rep.nontrivial_enum(1); }
    let case = || json!({"kind": "feat", "root": s.root, "manner": s.manner, "laryngeal": s.laryngeal, "place": *s.place, "feat": fi, "positive": pos});
    let sign = if pos { '+' } else { '-' };
    if node_before.is_some() || pos {
        if !t.feat_match(nk, mask, pos) { rep.violation(format!("feat-not-matching-after-set:{sign}{name}"), || json!({"case": case(), "expected": "feat_match true", "observed": "false"})); }
        if t.feat_match(nk, mask, !pos) { rep.violation(format!("feat-matches-opposite-after-set:{sign}{name}"), || json!({"case": case()})); }
        let g = t.get_feat(nk, mask);
        if g != Some(if pos { mask } else { 0 }) { rep.violation(format!("get_feat-after-set:{sign}{name}"), || json!({"case": case(), "observed": format!("{g:?}")})); }
    } else {
        if t != s { rep.violation(format!("negative-on-absent-node-changed-segment:{name}"), || json!({"case": case()})); }
        if t.feat_match(nk, mask, true) || t.feat_match(nk, mask, false) { rep.violation(format!("absent-node-matches:{name}"), || json!({"case": case()})); }
    }
    for (fj, (nk2, mask2, name2)) in FEATS.iter().enumerate() {
        if fj == fi { continue }
        let b = s.get_feat(*nk2, *mask2); let a = t.get_feat(*nk2, *mask2);
        let ok = b == a || (*nk2 == nk && b.is_none() && a == Some(0) && pos);
        if !ok { rep.violation(format!("feat-interference:{name}->{name2}"), || json!({"case": case(), "expected": format!("{b:?}"), "observed": format!("{a:?}")})); }
    }
    // nothing outside the node that holds the feature is written: the three byte-sized nodes bit for bit, the place as a whole
    let bytes = |x: &Segment| [x.root, x.manner, x.laryngeal];
    let which = match nk { asca::NodeKind::Root => Some(0), asca::NodeKind::Manner => Some(1), asca::NodeKind::Laryngeal => Some(2), _ => None };
    for k in 0..3 { if which != Some(k) && bytes(&s)[k] != bytes(&t)[k] { rep.violation(format!("set_feat-wrote-another-node:{name}"), || json!({"case": case(), "node": k, "expected": bytes(&s)[k], "observed": bytes(&t)[k]})); } }
    if let Some(k) = which { if (bytes(&s)[k] ^ bytes(&t)[k]) & !mask != 0 { rep.violation(format!("set_feat-wrote-other-bits:{name}"), || json!({"case": case(), "expected": bytes(&s)[k], "observed": bytes(&t)[k]})); } if *s.place != *t.place { rep.violation(format!("set_feat-touched-the-place:{name}"), || json!({"case": case()})); } }
    // whole-node views agree with the place getters
    if wf(*s.place) && !wf(*t.place) { rep.violation(format!("set_feat-not-closed:{sign}{name}"), || json!({"case": case(), "observed": format!("{:?}", *t.place)})); }
}

fn node_case(rep: &mut Report, s: Segment, i: usize, v: Option<u8>) {
    let mut t = s;
    t.set_node(SUB[i], v);
    rep.eval(1);
    let case = || json!({"kind": "node", "root": s.root, "manner": s.manner, "laryngeal": s.laryngeal, "place": *s.place, "node": i, "value": v});
    if t.get_node(SUB[i]) != v { rep.violation(format!("segment-get_node-after-set_node:{}", NODE[i]), || json!({"case": case(), "observed": format!("{:?}", t.get_node(SUB[i]))})); }
    if !t.node_match(SUB[i], v) { rep.violation(format!("node_match-after-set_node:{}", NODE[i]), || json!({"case": case()})); }
    if t.is_node_some(SUB[i]) != v.is_some() || t.is_node_none(SUB[i]) != v.is_none() { rep.violation(format!("is_node_some-after-set_node:{}", NODE[i]), || json!({"case": case()})); }
    if (t.root, t.manner, t.laryngeal) != (s.root, s.manner, s.laryngeal) { rep.violation(format!("set_node-touched-other-node:{}", NODE[i]), || json!({"case": case()})); }
    // the other three sub-nodes read as before
    for j in 0..4 { if j != i && t.get_node(SUB[j]) != s.get_node(SUB[j]) { rep.violation(format!("set_node-interference:{}->{}", NODE[i], NODE[j]), || json!({"case": case(), "expected": format!("{:?}", s.get_node(SUB[j])), "observed": format!("{:?}", t.get_node(SUB[j]))})); } }
    let (a, b, c, d) = t.get_place_sub_nodes();
    if [a, b, c, d] != gets(&t.get_place_node()) { rep.violation("get_place_sub_nodes-disagrees".into(), || json!({"case": case()})); }
    if t.is_place_some() != t.get_place_node().is_some() || t.is_place_none() == t.is_place_some() { rep.violation("is_place_some-disagrees".into(), || json!({"case": case()})); }
}

pub fn explore(ctx: &Ctx, shard: usize, n: usize) -> Report {
    let mut rep = Report::new(RULE);
    rep.exhaustive = true;
    let mut starts: Vec<Option<u16>> = (0..=65535u32).map(|x| Some(x as u16)).collect();
    starts.push(None);
    // under Miri (thorough tier) only a slice is affordable: every 16th place value, still all sub-nodes and values
    let slice = ctx.args.iter().any(|a| a == "--miri-slice");
    if slice { starts = starts.into_iter().enumerate().filter(|(i, _)| i % 509 == 1 || *i > 65532).map(|x| x.1).collect(); rep.exhaustive = false; }
    // place setter laws: every start value
    for (k, st) in starts.iter().enumerate() {
        if k % n != shard { continue }
        if wf(*st) { rep.obs("wellformed_start_values", 1); }
        for i in 0..4 {
            for v in (0..=MAXV[i]).map(Some).chain(std::iter::once(None)) { place_case(&mut rep, *st, i, v); }
        }
    }
    rep.obs("place_start_values", starts.iter().enumerate().filter(|(k, _)| k % n == shard).count() as u64);
    // segment laws on every well-formed place
    let wfs: Vec<Option<u16>> = starts.iter().cloned().filter(|s| wf(*s)).collect();
    let manners: Vec<u8> = vec![0x00, 0x55, 0xaa, 0xff];
    for (k, st) in wfs.iter().enumerate() {
        if k % n != shard { continue }
        if slice && k % 251 != 0 { continue }
        for root in 0..8u8 { for lar in 0..8u8 {
            if slice && (root % 3 != 1 || lar % 3 != 2) { continue }
            let ms: Vec<u8> = if (root, lar) == (5, 2) && k % 16 == 0 && !slice { (0..=255).collect() } else { manners.clone() };
            for man in ms {
                let mut s = Segment::default(); s.root = root; s.laryngeal = lar; s.manner = man; *s.place = *st;
                for fi in 0..26 { for pos in [true, false] { seg_case(&mut rep, s, fi, pos); } }
            }
        } }
        // every byte value of the root and laryngeal nodes, also those above the three bits in use (the accessors take any byte)
        if k % 64 == 0 && !slice { for b in 8..=255u8 { for which in 0..2 {
            let mut s = Segment::default(); s.root = if which == 0 { b } else { 5 }; s.laryngeal = if which == 1 { b } else { 2 }; s.manner = 0xa5; *s.place = *st;
            for fi in 0..26 { for pos in [true, false] { seg_case(&mut rep, s, fi, pos); } }
        } } }
        let mut s = Segment::default(); s.root = 3; s.manner = 0x81; s.laryngeal = 4; *s.place = *st;
        for i in 0..4 { for v in (0..=MAXV[i]).map(Some).chain(std::iter::once(None)) { node_case(&mut rep, s, i, v); } }
        // root / manner / laryngeal bytes through set_node/get_node
        if k % 64 == 0 { for nk in [NodeKind::Root, NodeKind::Manner, NodeKind::Laryngeal] { for b in 0..=255u8 {
            let mut t = s; t.set_node(nk, Some(b)); rep.eval(1);
            if t.get_node(nk) != Some(b) { rep.violation(format!("byte-node-get-after-set:{nk:?}"), || json!({"case": {"kind": "byte", "node": format!("{nk:?}"), "value": b, "place": *s.place}})); }
            if *t.place != *s.place { rep.violation(format!("byte-node-touched-place:{nk:?}"), || json!({"case": {"kind": "byte", "node": format!("{nk:?}"), "value": b, "place": *s.place}})); }
        } } }
    }
    if shard == 0 {
        rep.sample(|| json!({"law": "get∘set", "start_place": "0xA8C3 (labial+dorsal)", "op": "set_coronal(Some(2))", "checked": "get_coronal()==Some(2); labial, dorsal, pharyngeal unchanged; result well-formed"}));
        rep.sample(|| json!({"law": "remove last sub-node", "start_place": "0x8400", "op": "set_labial(None)", "checked": "place is None"}));
        rep.sample(|| json!({"law": "set_feat(-) on absent sub-node", "segment": "root=5 place=None", "op": "set_feat(Dorsal, hi, false)", "checked": "segment unchanged; feat_match(+)=feat_match(-)=false"}));
    }
    let _ = ctx;
    rep
}

pub fn replay(_ctx: &Ctx, case: &Value) -> Report {
    let mut rep = Report::new(RULE);
    let place = case.get("place").and_then(|x| x.as_u64()).map(|x| x as u16);
    let seg = || { let mut s = Segment::default(); s.root = ju64(case, "root") as u8; s.manner = ju64(case, "manner") as u8; s.laryngeal = ju64(case, "laryngeal") as u8; *s.place = place; s };
    let val = case.get("value").and_then(|x| x.as_u64()).map(|x| x as u8);
    match jstr(case, "kind").as_str() {
        "place" => place_case(&mut rep, case.get("start").and_then(|x| x.as_u64()).map(|x| x as u16), ju64(case, "node") as usize, val),
        "feat" => seg_case(&mut rep, seg(), ju64(case, "feat") as usize, case.get("positive").and_then(|x| x.as_bool()).unwrap_or(true)),
        "node" => node_case(&mut rep, seg(), ju64(case, "node") as usize, val),
        _ => rep.notes.push("unknown case kind".into()),
    }
    rep
}
