//! C17 – errors can always be shown and point at the line that caused them (fault injection, public API).
use crate::gen::*;
use crate::isol::{guard, Outcome, DEFAULT_BUDGET};
use crate::{drive, report::Report, util::*, Ctx};
use asca::{ASCAError, RuleGroup};
use serde_json::{json, Value};

const RULE: &str = "a valid project (2-4 rule groups of 1-4 valid rules incl. blank and comment-only lines, 3-6 words, optional alias lines) gets exactly ONE fault from a catalogue of rule syntax faults, rule runtime faults (each with a word that makes it fire), alias faults and word faults, planted at every position in turn: (group, line) for rules - before, between and after the valid lines -, every alias line, every word index. run must return Err; the matching formatter (format_rule_error / format_alias_error / format_word_error) is called under catch_unwind and must return; its text is parsed: `@ Rule g, Line l` (resp. romaniser/deromaniser line n, resp. the quoted word) must be the planted position, the quoted line must be the planted text, and every caret must lie in columns [0, chars(line)+1). Non-trivial = the fault produced an Err that names a position; distinct = distinct (fault, position, project).";

// (fault line, words that make it fire - for runtime faults)
const SYNTAX_FAULTS: [&str; 35] = ["a >", "> e", "a > e / _ _", "[+foo] > a", "a > [+voice", "a > e / _##", "a = e", "{a > e", "a > e |", "a > e / #_#s", "(a) > e", "a > [tone:12345]", "a > e / _ (C,3:1)", "a > [+tone]", "a > e / ",
    "a b", "a > e ;", "a > e / _ {}", "a > -", "a > e..", "K > a", "a > e / :{ _t p_ }:", "a, > e / _#, #_, _t", "* > *", "* > &", "a > [long]", "a > e / _ [+cons", "a:[+long > e", "a > e / _ ⟨t", "% > % / __#__",
    // a diacritic that its segment cannot take, alone and after one that was accepted (seed C17-e: two positions in one error)
    "tʱ > d", "tʷʱ > d", "t̬ʰ > d / _a", "a > n̥ʲʶ", "a > e / _pʲʷʱ"];
const RUNTIME_FAULTS: [(&str, &str); 16] = [("a > [+place]", "pa.ta"), ("V > [-long, +overlong]", "pa.ta"), ("{p, t} > {b}", "pa.ta"), ("a > [αvoice]", "pa.ta"), ("% > a", "pa.ta"), ("$ > a", "pa.ta"), ("a > 1", "pa.ta"), ("* > a", "pa.ta"),
    ("* > [+nasal] / a_", "pa.ta"), ("a > %", "pa.ta"), ("V > [-stress, +sec.stress]", "pa.ta"), ("a > [-root]", "pa.ta"), ("a > {e, o}", "pa.ta"), ("p a > & / _ :{ _t, _k }: ", "pa.ta"), ("% a > &", "pa.ta"), ("a > *", "a")];
const ALIAS_FAULTS_FROM: [&str; 8] = ["a >", "> b", "a > \\q", "a > @{nonsense}", "a > \\u{110000}", "[+foo] > b", "a:[+long > b", "a = b"];
const ALIAS_FAULTS_INTO: [&str; 7] = ["b >", "b > [+nasal]", "b > a:[+long, -long", "+b > a", "b > K", "b > a:[-long, +overlong]", "b > [+long]"];
const WORD_FAULTS: [&str; 8] = ["pa%ta", "ːa", "\u{0303}a", "pa12345", "pa'", "ta.ʘ", "tʰʰ\u{032A}\u{0325}ʰq\u{0361}", "p¤"];

pub struct Case { pub groups: Vec<Vec<String>>, pub words: Vec<String>, pub into: Vec<String>, pub from: Vec<String>, pub kind: String, pub at: (usize, usize), pub fault: String }
impl Case { fn json(&self) -> Value { json!({"groups": self.groups, "words": self.words, "into": self.into, "from": self.from, "kind": self.kind, "at": [self.at.0, self.at.1], "fault": self.fault}) } }

fn strip_ansi(s: &str) -> String {
    let mut out = String::new(); let mut it = s.chars().peekable();
    while let Some(c) = it.next() { if c == '\u{1b}' { if it.peek() == Some(&'[') { it.next(); for d in it.by_ref() { if d.is_ascii_alphabetic() { break } } } } else { out.push(c) } }
    out
}

const VALID: [&str; 14] = ["a > e / _#", "p > b / V_V", "V > [+nasal] / _N", "t > * / _#", "* > e / #_s", "$ > * / V_V", "", ";; just a comment", "C=1 V=2 > 2 1 / #_", "[+voice] > [-voice] | _#", "   ", "%:[+stress] > [-stress]", "n > m / _{p,b}", "s > ʃ / _i ;; palatalisation"];

fn base_project(r: &mut Rng) -> (Vec<Vec<String>>, Vec<String>, Vec<String>, Vec<String>) {
    // (a quarter of the groups have no rule line at all: a heading with nothing under it)
    let groups: Vec<Vec<String>> = (0..r.range(2, 5)).map(|_| if r.chance(1, 4) { Vec::new() } else { (0..r.range(1, 4)).map(|_| r.pick(&VALID).to_string()).collect() }).collect();
    let words: Vec<String> = (0..r.range(3, 6)).map(|_| rand_word(r, &WordCfg { tone: false, ..WordCfg::default() })).collect();
    let into = if r.chance(1, 2) { vec!["Ж > ʒ".to_string(), "ш > ʃ:[+long]".to_string()][..r.range(1, 2)].to_vec() } else { vec![] };
    let from = if r.chance(1, 2) { vec!["ʃ > sh".to_string(), "$ > *".to_string(), "V:[+long] > +@{macron}".to_string()][..r.range(1, 3)].to_vec() } else { vec![] };
    // blank lines between alias lines do nothing - but they are lines, and the line an alias error names counts them
    let (mut into, mut from) = (into, from);
    for list in [&mut into, &mut from] { if !list.is_empty() && r.chance(1, 2) { for _ in 0..r.range(1, 2) { let k = r.below(list.len() + 1); list.insert(k, if r.chance(1, 2) { String::new() } else { "  ".to_string() }); } } }
    (groups, words, into, from)
}

pub fn judge(rep: &mut Report, c: &Case) {
    rep.eval(1);
    let gs: Vec<RuleGroup> = c.groups.iter().enumerate().map(|(i, g)| RuleGroup::from(format!("group {i}"), g.clone(), String::new())).collect();
    let res = match guard(DEFAULT_BUDGET * 4, || asca::run(&gs, &c.words, &c.into, &c.from)) { Outcome::Done(r) => r, o => { rep.abort(o.abort_sig().unwrap_or_default(), || c.json()); return } };
    let Err(err) = res else { rep.obs("fault_inert", 1); return };
    let kind = err_kind(&err);
    rep.obs(&format!("err_{}", kind.split("::").next().unwrap_or("")), 1);
    rep.extra.insert(format!("variant_seen:{kind}"), json!(true));
    let text = match guard(DEFAULT_BUDGET, || match &err {
        asca::Error::RuleSyn(e) => e.format_rule_error(&gs), asca::Error::RuleRun(e) => e.format_rule_error(&gs),
        asca::Error::AliasSyn(e) => e.format_alias_error(&c.into, &c.from), asca::Error::AliasRun(e) => e.format_alias_error(&c.into, &c.from),
        asca::Error::WordSyn(e) => e.format_word_error(&c.words), asca::Error::WordRun(e) => e.format_word_error(&c.words),
    }) {
        Outcome::Done(t) => strip_ansi(&t),
        Outcome::Panic { sig, site } => { rep.violation(format!("formatter-panics:{}", kind), || json!({"case": c.json(), "error": kind, "panic": format!("{sig} ({}:{})", site.file, site.line)})); return }
        o => { rep.abort(o.abort_sig().unwrap_or_default(), || c.json()); return }
    };
    let lines: Vec<&str> = text.lines().collect();
    let margin = "    |     ";
    let quoted: Vec<&str> = lines.iter().filter(|l| l.starts_with(margin)).map(|l| &l[margin.len()..]).collect();
    let fail = |rep: &mut Report, what: &str, detail: String| { let t = text.clone(); rep.violation(format!("{what}:{}", c.kind), || json!({"case": c.json(), "error": kind, "formatted": t, "detail": detail})); };
    // expected kind of error for the kind of fault
    let expected_family = match c.kind.as_str() { "rule-syntax" | "rule-runtime" => "Rule", "alias-from" | "alias-into" => "Alias", _ => "Word" };
    if !kind.starts_with(expected_family) {
        // another part of the input is reported than the one that is wrong
        fail(rep, "error-names-another-part-of-the-input", format!("planted a {} fault, got {kind}", c.kind)); return
    }
    match c.kind.as_str() {
        "rule-syntax" | "rule-runtime" => {
            let loc = lines.iter().find_map(|l| { let l = l.trim(); let r = l.strip_prefix("@ Rule ")?; let (g, ln) = r.split_once(", Line ")?; Some((g.trim().parse::<usize>().ok()?, ln.trim().parse::<usize>().ok()?)) });
            let Some((g, l)) = loc else { rep.obs("position_less_errors", 1); return };
            if g == 0 || l == 0 || g > c.groups.len() || l > c.groups[g - 1].len() { fail(rep, "names-a-line-that-does-not-exist", format!("Rule {g}, Line {l}")); return }
            if (g - 1, l - 1) != c.at { fail(rep, "names-another-line", format!("planted at group {} line {}, error names Rule {g}, Line {l}", c.at.0 + 1, c.at.1 + 1)); return }
            if quoted.is_empty() || quoted[0] != c.fault { fail(rep, "quotes-another-line", format!("{:?}", quoted.first())); return }
            if let Some(carets) = quoted.get(1) { let n = c.fault.chars().count(); for (col, ch) in carets.chars().enumerate() { if ch == '^' && col > n { fail(rep, "caret-outside-the-line", format!("caret at column {col}, line has {n} characters")); return } } if !carets.contains('^') { rep.obs("errors_with_an_empty_caret_span", 1); } }
            rep.nontrivial(hash64(&(&c.fault, c.at, &c.groups)));
        }
        "alias-from" | "alias-into" => {
            let which = if c.kind == "alias-from" { "romaniser" } else { "deromaniser" };
            let loc = lines.iter().find_map(|l| { let l = l.trim(); let r = l.strip_prefix("@ ")?; let (k, ln) = r.split_once(", line ")?; Some((k.trim().to_string(), ln.trim().parse::<usize>().ok()?)) });
            let Some((k, ln)) = loc else { rep.obs("position_less_errors", 1); return };
            let list = if c.kind == "alias-from" { &c.from } else { &c.into };
            if k != which { fail(rep, "names-the-other-alias-section", format!("{k}, line {ln}")); return }
            if ln == 0 || ln > list.len() { fail(rep, "names-a-line-that-does-not-exist", format!("{k}, line {ln}")); return }
            if ln - 1 != c.at.1 { fail(rep, "names-another-line", format!("planted at line {}, error names line {ln}", c.at.1 + 1)); return }
            if quoted.is_empty() || quoted[0] != c.fault { fail(rep, "quotes-another-line", format!("{:?}", quoted.first())); return }
            if let Some(carets) = quoted.get(1) { let n = c.fault.chars().count(); for (col, ch) in carets.chars().enumerate() { if ch == '^' && col > n { fail(rep, "caret-outside-the-line", format!("caret at column {col}, line has {n} characters")); return } } }
            rep.nontrivial(hash64(&(&c.fault, c.at, &c.from, &c.into)));
        }
        _ => {
            // word errors quote the word (after the documented respellings), not its index
            if quoted.is_empty() { fail(rep, "no-word-quoted", String::new()); return }
            let shown = quoted[0].split(" => ").next().unwrap_or(quoted[0]);
            // (the word is shown as the program reads it: ASCII shorthands respelt, precomposed letters split)
            let planted = c.fault.replace('\'', "ˈ").replace(',', "ˌ").replace(':', "ː").replace(';', "ː.").replace('ã', "a\u{303}").replace('õ', "o\u{303}").replace('ɚ', "ə˞");
            if shown != planted { fail(rep, "quotes-another-word", format!("{shown:?} instead of {planted:?}")); return }
            if let Some(carets) = quoted.get(1) { let n = shown.chars().count(); for (col, ch) in carets.chars().enumerate() { if ch == '^' && col > n { fail(rep, "caret-outside-the-word", format!("caret at column {col}, word has {n} characters")); return } } }
            rep.nontrivial(hash64(&(&c.fault, c.at, &c.words)));
        }
    }
    if rep.samples.len() < 6 { let v = json!({"fault": c.fault, "kind": c.kind, "planted_at": [c.at.0 + 1, c.at.1 + 1], "error": kind, "formatted": text}); rep.sample(|| v); }
}

/// the fault itself and the same fault on a line that also carries characters which the program rewrites before lexing
/// (precomposed letters that normalisation splits in two, the ASCII g) or which are wider than a byte - where column
/// bookkeeping in a different unit, or against a rewritten copy of the line, would show
fn variants(f: &str, from: char, decor: &[&str], r: &mut Rng) -> Vec<String> {
    let mut v = vec![f.to_string()];
    if f.contains(from) { let d = *r.pick(decor); v.push(f.replacen(from, d, 1)); }
    v
}

pub fn explore(ctx: &Ctx, shard: usize, n: usize) -> Report {
    let mut rep = drive::cases(ctx, shard, n, RULE, 0x17, 60, 12000, |r, rep, _| {
        let (groups, words, into, from) = base_project(r);
        // the base project itself must run
        let gs: Vec<RuleGroup> = groups.iter().map(|g| RuleGroup::from_rules(g.clone())).collect();
        if !matches!(guard(DEFAULT_BUDGET * 4, || asca::run(&gs, &words, &into, &from)), Outcome::Done(Ok(_))) { rep.obs("base_project_not_valid", 1); return }
        rep.obs("base_projects", 1);
        // rule faults at every (group, line) position
        for gi in 0..groups.len() { for li in 0..=groups[gi].len() {
            for f0 in SYNTAX_FAULTS.iter() { for f in variants(f0, 'a', &["ã", "ɚ", "õ", "ẽ"], r) { let mut g2 = groups.clone(); g2[gi].insert(li, f.clone()); judge(rep, &Case { groups: g2, words: words.clone(), into: into.clone(), from: from.clone(), kind: "rule-syntax".into(), at: (gi, li), fault: f }); } }
            for (f, w) in RUNTIME_FAULTS.iter() {
                // a runtime fault needs the earlier rules not to have removed what it matches: it is judged on a project whose earlier lines are comments
                let mut g2: Vec<Vec<String>> = groups.iter().map(|g| g.iter().map(|l| if l.trim().is_empty() { l.clone() } else { format!(";; {l}") }).collect()).collect();
                g2[gi].insert(li, f.to_string());
                judge(rep, &Case { groups: g2, words: vec![w.to_string()], into: vec![], from: from.clone(), kind: "rule-runtime".into(), at: (gi, li), fault: f.to_string() });
            }
        } }
        for (list, faults, kind) in [(&from, &ALIAS_FAULTS_FROM[..], "alias-from"), (&into, &ALIAS_FAULTS_INTO[..], "alias-into")] {
            for li in 0..=list.len() { for f0 in faults { for f in variants(f0, if kind == "alias-from" { 'a' } else { 'b' }, &["ã", "ɚɝ", "õ, ũ", "ỹ"], r) { let mut l2 = list.clone(); l2.insert(li, f.clone());
                let (i2, f2) = if kind == "alias-from" { (into.clone(), l2) } else { (l2, from.clone()) };
                judge(rep, &Case { groups: groups.clone(), words: words.clone(), into: i2, from: f2, kind: kind.into(), at: (0, li), fault: f }); } } }
        }
        // errors that generated rules run into (an unbound alpha, a contradictory modifier, an uneven set ... whatever the full-grammar
        // generator happens to produce): not from the catalogue, so nothing is known about them except where they were planted
        for _ in 0..300 {
            let ast = rand_rule(r, &RuleCfg::default());
            let f = plain(&ast);
            let w = witness_word(&ast, r).unwrap_or_else(|| rand_word(r, &WordCfg::default()));
            let gi = r.below(groups.len()); let li = r.below(groups[gi].len() + 1);
            let mut g2: Vec<Vec<String>> = groups.iter().map(|g| g.iter().map(|l| if l.trim().is_empty() { l.clone() } else { format!(";; {l}") }).collect()).collect();
            g2[gi].insert(li, f.clone());
            judge(rep, &Case { groups: g2, words: vec![w], into: vec![], from: vec![], kind: "rule-runtime".into(), at: (gi, li), fault: f });
        }
        for wi in 0..=words.len() { for f0 in WORD_FAULTS.iter() { for f in [f0.to_string(), format!("{}{f0}", *r.pick(&["ã", "ɚ", "gõ."]))] { let mut w2 = words.clone(); w2.insert(wi, f.clone()); judge(rep, &Case { groups: groups.clone(), words: w2, into: vec![], from: from.clone(), kind: "word".into(), at: (0, wi), fault: f }); } } }
    });
    let _ = (ctx, shard);
    rep
}

pub fn replay(_ctx: &Ctx, v: &Value) -> Report {
    let mut rep = Report::new(RULE);
    let groups = v["groups"].as_array().map(|a| a.iter().map(|g| g.as_array().map(|x| x.iter().map(|s| s.as_str().unwrap_or("").to_string()).collect()).unwrap_or_default()).collect()).unwrap_or_default();
    judge(&mut rep, &Case { groups, words: jstrs(v, "words"), into: jstrs(v, "into"), from: jstrs(v, "from"), kind: jstr(v, "kind"), at: (v["at"][0].as_u64().unwrap_or(0) as usize, v["at"][1].as_u64().unwrap_or(0) as usize), fault: jstr(v, "fault") });
    rep
}
