//! C01 – same input, same output: multi-process + repeated-call + word-order differential (public API).
//! Every process has its own RandomState, so HashMap iteration order differs between them; the parent
//! compares, input by input, what K fresh processes returned.
use crate::gen::*;
use crate::{report::Report, run::*, util::*, Ctx};
use asca::RuleGroup;
use serde_json::{json, Value};

const RULE: &str = "K fresh processes (quick 8, thorough 48) each evaluate the same list of inputs through asca::run / get_trace_string: (A) `[] > [±F]` for all 26 features on every k-th base / base+1-diacritic spelling (forces the renderer's candidate search and its tie-breaks), (B) the same through `+` romanisers (nearest-base-phone search), (C) harvested rules x harvested words, (D) inputs that return errors, (E) printed traces; every batch is run twice in a row and once with the words in reverse order. A violation is an input whose result differs between two processes, between two successive calls, or with the word order. Non-trivial = inputs whose rendering is not a bare base phone (i.e. went through the candidate search); distinct = distinct inputs.";

/// `into`: deromanisers (alias_into) of the call
pub struct Batch { pub groups: Vec<RuleGroup>, pub words: Vec<String>, pub from: Vec<String>, pub into: Vec<String>, pub trace: bool, pub tag: &'static str }

pub fn batches(ctx: &Ctx) -> Vec<Batch> {
    let mut v = Vec::new();
    let segs = single_segments(1);
    let kq = ctx.pick(6, 2) as usize;
    let texts: Vec<String> = segs.iter().enumerate().filter(|(i, _)| (i + ctx.seed as usize) % kq == 0).map(|(_, s)| s.0.clone()).collect();
    for (name, _, _) in crate::c04::F { for sign in ['+', '-'] {
        v.push(Batch { groups: vec![RuleGroup::from_rules(vec![format!("[] > [{sign}{name}]")])], words: texts.clone(), from: vec![], into: vec![], trace: false, tag: "A" });
    } }
    let texts_b: Vec<String> = texts.iter().step_by(3).cloned().collect();
    for (i, (name, _, _)) in crate::c04::F.iter().enumerate() {
        let from = match i % 3 { 0 => vec!["V > +@{acute}".to_string(), "C > +@{underdot}".to_string()], 1 => vec!["[+voice] > +x".to_string(), "[-voice] > +@{macron}".to_string(), "$ > *".to_string()], _ => vec!["[+son] > +@{tilde}".to_string()] };
        v.push(Batch { groups: vec![RuleGroup::from_rules(vec![format!("[] > [{}{name}]", if i % 2 == 0 { '+' } else { '-' })])], words: texts_b.clone(), from, into: vec![], trace: false, tag: "B" });
    }
    let (rules, words) = harvest(&ctx.repo);
    let kc = ctx.pick(5, 1) as usize;
    for (i, r) in rules.iter().enumerate() { if (i + ctx.seed as usize) % kc != 0 { continue } v.push(Batch { groups: vec![RuleGroup::from_rules(vec![r.clone()])], words: words.clone(), from: vec![], into: vec![], trace: false, tag: "C" }); }
    for bad in ["a > ", "[+foo] > a", "a > e / _ _", "% > *", "* > a", "a > [+place]", "{a} > {e, o}"] { v.push(Batch { groups: vec![RuleGroup::from_rules(vec![bad.to_string()])], words: vec!["pa.ta".into(), "a".into(), "ˈ".into()], from: vec![], into: vec![], trace: false, tag: "D" }); }
    for (i, r) in rules.iter().enumerate().take(60) { v.push(Batch { groups: vec![RuleGroup::from(format!("g{i}"), vec![r.clone()], String::new())], words: words.iter().skip(i).step_by(37).cloned().collect(), from: vec![], into: vec![], trace: true, tag: "E" }); }
    // (F) state that could survive from one word to the next inside a call: rules whose input binds an alpha or a variable in its
    //     first element and uses it in a later one (also across `$`, in the context, in metathesis), on lists of short words over a
    //     small inventory - so that many words END in a partial match and the next one BEGINS with a match of the other value
    let mut r = Rng::new(ctx.seed, 0xC01F);
    let inv = ["p", "b", "t", "d", "k", "ɡ", "s", "z", "m", "n", "a", "i", "u"];
    let feats = ["voice", "nasal", "cont", "son", "cons", "syll", "hi", "back"];
    for _ in 0..ctx.pick(600, 6000) {
        let (f, g) = (*r.pick(&feats), *r.pick(&feats));
        let rule = match r.below(9) {
            0 => format!("[+cons, α{f}]=1 [+cons, α{f}] > 1 1"),
            1 => format!("[α{f}] [-α{f}] > &"),
            2 => format!("[α{f}] > [+{g}] / _ [α{f}]"),
            3 => format!("[α{f}] $ [α{f}] > [+{g}] $ [+{g}]"),
            4 => format!("C=1 V 1 > 1 V [+{g}]"),
            5 => format!("[α{f}, β{g}] [α{f}] [β{g}] > * 2 3"),
            6 => format!("[α{f}] [α{f}] $ > [-{g}] [+{g}] $"),
            7 => format!("[α{f}]=1 C > 1 1 / _ [α{f}]"),
            _ => plain(&rand_rule(&mut r, &RuleCfg { max_side: 2, ..RuleCfg::default() })),
        };
        let words: Vec<String> = (0..r.range(4, 9)).map(|_| { let n = r.range(1, 5); let mut w = String::new(); let mut last = ""; for j in 0..n { let x = *r.pick(&inv); if x == last { continue } if j > 0 && r.chance(1, 3) { w.push('.') } w += x; last = x; } w }).collect();
        v.push(Batch { groups: vec![RuleGroup::from_rules(vec![rule])], words, from: vec![], into: vec![], trace: false, tag: "F" });
    }
    // (G) the same failing rule text at different (group, line) positions, in separate batches: anything remembered about a rule
    //     from an earlier call (a parse cache, a position) shows in the error value - provided processes do not all share one history,
    //     which is why every second child runs its batches in reverse order
    for (bad, w) in [("a > [Avoice]", "pa.ta"), ("a > [+place]", "pa.ta"), ("{p, t} > {b}", "pa.ta"), ("% > a", "pa.ta"), ("a > 1", "pa.ta"), ("V > [-long, +overlong]", "pa.ta"), ("a > *", "a"), ("p a > & / _ :{ _t, _k }: ", "pa.ta")] {
        let g = |rules: &[&str]| RuleGroup::from_rules(rules.iter().map(|x| x.to_string()).collect());
        for groups in [vec![g(&[bad])], vec![g(&["p > b", bad])], vec![g(&["p > b"]), g(&[bad])], vec![g(&[";; note", "", bad]), g(&["t > d"])], vec![g(&["k > g"]), g(&[]), g(&["p > b", "t > d", bad])]] {
            v.push(Batch { groups, words: vec![w.to_string(), "ki".to_string()], from: vec![], into: vec![], trace: false, tag: "G" });
        }
    }
    // (H) the same words with and without deromanisers, and under two different deromaniser lists: what an earlier call made of a
    //     spelling must not colour a later one (again it is the alternating batch order that gives the processes different histories)
    for (i, rule) in ["a > e", "s > z / V_V", "[] > [+voice]"].iter().enumerate() {
        let words: Vec<String> = ["sha.ta", "pasha", "ka.sha.sh", "asa", "shsh"].iter().map(|x| x.to_string()).collect();
        for into in [vec![], vec!["sh > ʃ".to_string()], vec!["sh > x".to_string(), "a > ɑ".to_string()]] {
            v.push(Batch { groups: vec![RuleGroup::from(format!("h{i}"), vec![rule.to_string()], String::new())], words: words.clone(), from: vec![], into, trace: i == 2, tag: "H" });
        }
    }
    v
}

fn eval(b: &Batch, words: &[String]) -> Vec<String> {
    if b.trace {
        words.iter().map(|w| match crate::isol::guard(crate::isol::DEFAULT_BUDGET, || asca::get_trace_string(&b.groups, w.clone(), &b.into)) { crate::isol::Outcome::Done(Ok(v)) => v.join(" | "), crate::isol::Outcome::Done(Err(e)) => format!("Err({})", err_kind(&e)), o => format!("Abort({})", o.abort_sig().unwrap_or_default()) }).collect()
    } else {
        // one call per word so that one failing word does not hide the others ...
        // (the error VALUE, positions included: for identical arguments it must be identical too)
        let each: Vec<String> = words.iter().map(|w| match crate::isol::guard(crate::isol::DEFAULT_BUDGET, || asca::run(&b.groups, &[w.clone()], &b.into, &b.from)) {
            crate::isol::Outcome::Done(Ok(v)) => v[0].clone(),
            crate::isol::Outcome::Done(Err(e)) => format!("Err({e:?})"),
            o => format!("Abort({})", o.abort_sig().unwrap_or_default()),
        }).collect();
        each
    }
}

/// child: evaluates every batch (twice, and once reversed) and writes the results
pub fn child(ctx: &Ctx, out: &str) {
    let bs = batches(ctx);
    let mut results: Vec<Vec<String>> = vec![Vec::new(); bs.len()];
    let (mut repeat_diff, mut order_diff, mut list_diff) = (Vec::new(), Vec::new(), Vec::new());
    // every second child works through the batches backwards: processes then differ in call history, not only in hash seed
    let backwards = ctx.args.iter().any(|a| a == "--c01-backwards");
    let order: Vec<usize> = if backwards { (0..bs.len()).rev().collect() } else { (0..bs.len()).collect() };
    for bi in order {
        let b = &bs[bi];
        let r1 = eval(b, &b.words);
        let r2 = eval(b, &b.words);
        if r1 != r2 { let i = (0..r1.len()).find(|i| r1[*i] != r2[*i]).unwrap(); repeat_diff.push(json!({"batch": bi, "word": b.words[i], "first": r1[i], "second": r2[i]})); }
        let mut rev: Vec<String> = b.words.clone(); rev.reverse();
        let mut r3 = eval(b, &rev); r3.reverse();
        if r1 != r3 { let i = (0..r1.len()).find(|i| r1[*i] != r3[*i]).unwrap(); order_diff.push(json!({"batch": bi, "word": b.words[i], "forward": r1[i], "reversed": r3[i]})); }
        // ... and one call on the whole list (when every word succeeds) must agree with the per-word calls
        if !b.trace && r1.iter().all(|x| !x.starts_with("Err(") && !x.starts_with("Abort(")) {
            // and the list in the other order, in one call, must give the same words in the other order
            if let (Ok(whole), Ok(mut back)) = (run_pub(&b.groups, &b.words, &b.into, &b.from), run_pub(&b.groups, &rev, &b.into, &b.from)) { back.reverse(); if whole != back { let i = (0..whole.len().min(back.len())).find(|i| whole[*i] != back[*i]).unwrap_or(0); order_diff.push(json!({"batch": bi, "word": b.words[i], "forward": whole[i], "reversed": back[i], "one_call_per_order": true})); } }
            if let Ok(whole) = run_pub(&b.groups, &b.words, &b.into, &b.from) { if whole != r1 { let i = (0..r1.len()).find(|i| r1[*i] != whole[*i]).unwrap_or(0); list_diff.push(json!({"batch": bi, "word": b.words[i], "alone": r1[i], "in_list": whole.get(i)})); } }
        }
        results[bi] = r1;
    }
    let v = json!({"fingerprint": format!("{:016x}", asca::verif::table_order_fingerprint()), "results": results, "repeat_diff": repeat_diff, "order_diff": order_diff, "list_diff": list_diff});
    std::fs::write(out, serde_json::to_string(&v).unwrap()).expect("write child output");
}

pub fn explore(ctx: &Ctx, shard: usize, _n: usize) -> Report {
    if let Some(i) = ctx.args.iter().position(|a| a == "--c01-child") { if shard == 0 { child(ctx, &ctx.args[i + 1]); } return Report::default() }
    let mut rep = Report::new(RULE);
    if shard != 0 { return rep }
    let k = ctx.args.iter().position(|a| a == "--c01-k").and_then(|i| ctx.args.get(i + 1)).and_then(|x| x.parse().ok()).unwrap_or(ctx.pick(8, 48) as usize);
    let exe = std::env::current_exe().expect("exe");
    let dir = std::env::current_dir().unwrap_or_else(|_| std::env::temp_dir()).join(format!("vh-c01-{}", std::process::id()));
    let _ = std::fs::create_dir_all(&dir);
    let bs = batches(ctx);
    // run the children, at most `threads` at a time
    let mut outs: Vec<Option<Value>> = Vec::new();
    let mut idx = 0;
    while idx < k {
        let wave: Vec<usize> = (idx..k.min(idx + ctx.threads.max(1))).collect();
        let mut procs = Vec::new();
        for p in &wave {
            let of = dir.join(format!("child{p}.json"));
            let c = std::process::Command::new(&exe).args(["C01", "explore", "--tier", if ctx.quick() { "quick" } else { "thorough" }, "--seed", &ctx.seed.to_string(), "--threads", "1", "--c01-child", of.to_str().unwrap(), "--out", "/dev/null", if p % 2 == 1 { "--c01-backwards" } else { "--c01-forwards" }])
                .stdin(std::process::Stdio::null()).stdout(std::process::Stdio::null()).stderr(std::process::Stdio::null()).spawn();
            procs.push((of, c));
        }
        for (of, c) in procs {
            let ok = match c { Ok(mut ch) => ch.wait().map(|s| s.success()).unwrap_or(false), Err(_) => false };
            outs.push(if ok { std::fs::read_to_string(&of).ok().and_then(|t| serde_json::from_str(&t).ok()) } else { None });
        }
        idx += wave.len();
    }
    let _ = std::fs::remove_dir_all(&dir);
    let good: Vec<&Value> = outs.iter().flatten().collect();
    rep.obs("processes", good.len() as u64);
    if good.len() < k { rep.obs("worker_died", (k - good.len()) as u64); rep.notes.push("a child process failed".into()); }
    if good.len() < 2 { return rep }
    let fps: std::collections::HashSet<String> = good.iter().map(|g| jstr(g, "fingerprint")).collect();
    rep.obs("distinct_table_orders", fps.len() as u64);
    // compare input by input
    let base = good[0];
    for (bi, b) in bs.iter().enumerate() {
        for (wi, w) in b.words.iter().enumerate() {
            rep.eval(good.len() as u64 * 3);
            let vals: Vec<&str> = good.iter().map(|g| g["results"][bi][wi].as_str().unwrap_or("?")).collect();
            let first = vals[0];
            // did this input go through the candidate search?
            if !first.starts_with("Err(") && first.chars().count() > w.chars().count().min(1) { rep.nontrivial(hash64(&(bi, wi))); }
            if vals.iter().any(|v| *v != first) {
                let distinct: std::collections::BTreeSet<&str> = vals.iter().cloned().collect();
                let rule = b.groups[0].rule.first().cloned().unwrap_or_default();
                let kind = match b.tag { "B" => "plus-romaniser", "E" => "trace", _ => "run" };
                rep.violation(format!("differs-between-processes:{kind}"), || json!({"case": {"rule": rule, "word": w, "from": b.from, "trace": b.trace, "seed": ctx.seed, "tier": if ctx.quick() { "quick" } else { "thorough" }, "batch": bi}, "observed": distinct, "processes": good.len()}));
            }
        }
    }
    let _ = base;
    for g in &good {
        for (key, sig) in [("repeat_diff", "second-call-differs"), ("order_diff", "word-order-changes-result"), ("list_diff", "list-call-differs-from-single-calls")] {
            if let Some(a) = g[key].as_array() { for d in a { let bi = d["batch"].as_u64().unwrap_or(0) as usize; let b = &bs[bi]; let rule = b.groups[0].rule.first().cloned().unwrap_or_default(); let d2 = d.clone();
                rep.violation(sig.to_string(), || json!({"case": {"rule": rule, "word": d2["word"], "words": b.words, "from": b.from, "trace": b.trace}, "observed": d2})); } }
        }
    }
    rep.sample(|| json!({"batch": "A", "rule": bs[0].groups[0].rule[0], "words": bs[0].words.len(), "first_results": good[0]["results"][0].as_array().map(|a| a.iter().take(6).cloned().collect::<Vec<_>>())}));
    rep.sample(|| json!({"table_order_fingerprints": fps.iter().take(8).collect::<Vec<_>>()}));
    rep
}

/// replay: the single input, evaluated in 6 fresh processes
pub fn replay(ctx: &Ctx, v: &Value) -> Report {
    let mut rep = Report::new(RULE);
    if let Some(i) = ctx.args.iter().position(|a| a == "--c01-one") {
        // child of a replay: print the result of the one input
        let c: Value = serde_json::from_str(&ctx.args[i + 1]).unwrap_or(Value::Null);
        let b = Batch { groups: vec![RuleGroup::from(String::from("g"), vec![jstr(&c, "rule")], String::new())], words: vec![jstr(&c, "word")], from: jstrs(&c, "from"), into: vec![], trace: c["trace"].as_bool().unwrap_or(false), tag: "R" };
        println!("{}", eval(&b, &b.words)[0]);
        return rep;
    }
    if v["words"].is_array() {
        // an in-process witness (second call / word order / list vs single calls): the same comparisons on its word list
        let b = Batch { groups: vec![RuleGroup::from(String::from("g"), vec![jstr(v, "rule")], String::new())], words: jstrs(v, "words"), from: jstrs(v, "from"), into: vec![], trace: v["trace"].as_bool().unwrap_or(false), tag: "R" };
        rep.eval(4);
        let (r1, r2) = (eval(&b, &b.words), eval(&b, &b.words));
        if r1 != r2 { rep.violation("second-call-differs".into(), || json!({"case": v, "first": r1, "second": r2})); return rep }
        let mut rev = b.words.clone(); rev.reverse();
        let mut r3 = eval(&b, &rev); r3.reverse();
        if r1 != r3 { rep.violation("word-order-changes-result".into(), || json!({"case": v, "forward": r1, "reversed": r3})); return rep }
        if !b.trace && r1.iter().all(|x| !x.starts_with("Err(") && !x.starts_with("Abort(")) {
            if let (Ok(whole), Ok(mut back)) = (run_pub(&b.groups, &b.words, &b.into, &b.from), run_pub(&b.groups, &rev, &b.into, &b.from)) {
                back.reverse();
                if whole != back { rep.violation("word-order-changes-result".into(), || json!({"case": v, "forward": whole, "reversed": back})); return rep }
                if whole != r1 { rep.violation("list-call-differs-from-single-calls".into(), || json!({"case": v, "alone": r1, "in_list": whole})); return rep }
            }
        }
        return rep;
    }
    let exe = std::env::current_exe().expect("exe");
    let mut seen = std::collections::BTreeSet::new();
    for _ in 0..6 {
        if let Ok(o) = std::process::Command::new(&exe).args(["C01", "replay", "--cases", "/dev/null", "--c01-one", &v.to_string()]).output() { seen.insert(String::from_utf8_lossy(&o.stdout).lines().next().unwrap_or("").to_string()); }
    }
    rep.eval(6);
    if seen.len() <= 1 && v["seed"].is_u64() {
        // fresh processes agree on the one input: the difference may need the call history of a whole run - two children, one
        // working forwards and one backwards through the batches of the witness' seed and tier
        let of = std::env::current_dir().unwrap_or_else(|_| std::env::temp_dir()).join(format!("vh-c01-replay-{}.json", std::process::id()));
        let st = std::process::Command::new(&exe).args(["C01", "explore", "--tier", v["tier"].as_str().unwrap_or("quick"), "--seed", &v["seed"].as_u64().unwrap_or(1).to_string(), "--threads", "2", "--c01-k", "2", "--out", of.to_str().unwrap_or("")])
            .stdin(std::process::Stdio::null()).stdout(std::process::Stdio::null()).stderr(std::process::Stdio::null()).status();
        if st.map(|x| x.success()).unwrap_or(false) {
            if let Some(r2) = std::fs::read_to_string(&of).ok().and_then(|t| serde_json::from_str::<Value>(&t).ok()) {
                for vi in r2["violations"].as_array().cloned().unwrap_or_default() {
                    if vi["signature"].as_str().unwrap_or("").starts_with("differs-between-processes") { let sig = vi["signature"].as_str().unwrap_or("").to_string(); rep.violation(sig, || json!({"case": v, "observed": vi["detail"]["observed"], "note": "reproduced by a two-process run (forwards / backwards) of the witness' workload"})); break }
                }
            }
        }
        let _ = std::fs::remove_file(&of);
        return rep;
    }
    if seen.len() > 1 { let kind = if !jstrs(v, "from").is_empty() { "plus-romaniser" } else if v["trace"].as_bool().unwrap_or(false) { "trace" } else { "run" }; rep.violation(format!("differs-between-processes:{kind}"), || json!({"case": v, "observed": seen})); }
    rep
}
