//! C08 – every output word is well formed (invariant walker over the hooked word after every rule group).
use crate::c18::wf;
use crate::gen::*;
use crate::{drive, report::Report, run::*, sw, util::*, Ctx};
use asca::verif::Word;
use asca::RuleGroup;
use serde_json::{json, Value};

const RULE: &str = "sequences of 1-6 rule groups (one rule each) x generated words (incl. tones up to 4 digits on adjacent syllables, long segments, multi-node places): rules from the full-grammar generator, from the rules harvested from the test-suite and manual, and from templates biased to what restructures a word (deletion of segments / syllables / `$`, metathesis with `$`, insertion of `$`, `%` and structures, syllable substitution, tone merging through `$ > *`, node alphas, `[-place]`, `[±lab/cor/dor/phr]`); after EVERY group of every successful run the walker checks: >= 1 syllable, no empty syllable, tone has <= 4 digits and no 0 digit, root/laryngeal use only their 3 bits, place is never Some(0), no feature bits under an absent sub-node. Non-trivial = the sequence changed the word's shape (segment count, syllable count or a place value); distinct = distinct (rules, word).";

pub const TEMPLATES: [&str; 55] = [
    "* > ⟨ta:[tone: 214]⟩:[tone: 35] / a_#", "* > ⟨t:[tone: 51]a:[tone: 214]⟩ / #_", "a > ⟨o:[tone: 214]⟩:[tone: 35] / _#", "% > ⟨k:[tone: 12]a:[tone: 34]n⟩:[tone: 5]",
    "% > [tone: 30]", "V > [tone: 105]", "%:[tone: 5] > [tone: 10234]", "% > [tone: 050]", "* > ⟨ta⟩:[tone: 2040] / _#",
    "$ > *", "$ > * / _C", "$ > * / V_", "V > * / _#", "C > * / #_", "V > *", "C > *", "% > * / _#", "% > * / #_", "%:[-stress] > *",
    "$C > &", "C$ > &", "$V > &", "V$ > & / _C", "CV > &", "%% > &", "* > $ / V_C", "* > $ / C_C", "* > $ / _V", "* > % / V_", 
    "* > ⟨ta⟩ / _#", "* > ⟨a⟩:[+stress] / #_", "C > C$", "V > V$ / _C", "C > ⟨pa⟩", "V > ⟨an⟩:[tone:51]", "% > ⟨ka⟩ / _#", "V > [tone:35]", "% > [tone:1234]", "$ > * / V:[tone:51]_",
    "$V > *", "$C > * / _V", "$V:[-stress] > * / _$", "V$ > * / #_", "%V > * / #_", "$CV > * / #_",
    "[] > [-place]", "C > [-lab]", "[+round] > [-lab]", "[+labdent] > [-lab]", "C > [-cor]", "[+hi] > [-dor]", "C > [+phr]", "C > [Aplace] / _C:[Aplace]", "[+nasal] > [Alab] / _[Alab]", "V > [-dor, +lab]",
];

pub fn check_word(w: &Word) -> Option<String> {
    if w.syllables.is_empty() { return Some("no-syllables".into()) }
    for (i, s) in w.syllables.iter().enumerate() {
        if s.segments.is_empty() { return Some(format!("empty-syllable(at {i} of {})", w.syllables.len())) }
        let t = s.tone.to_string();
        if s.tone != 0 && (t.len() > 4 || t.contains('0')) { return Some("tone".into()) }
        for seg in &s.segments {
            if seg.root & !0b111 != 0 { return Some("root-stray-bits".into()) }
            if seg.laryngeal & !0b111 != 0 { return Some("laryngeal-stray-bits".into()) }
            if *seg.place == Some(0) { return Some("place-some-zero".into()) }
            if !wf(*seg.place) { return Some("place-bits-under-absent-subnode".into()) }
        }
    }
    None
}
fn class(v: &str) -> String { v.split('(').next().unwrap_or(v).to_string() }
fn shape(w: &Word) -> (usize, usize, Vec<Option<u16>>) { (w.syllables.len(), sw::seg_count(w), w.syllables.iter().flat_map(|s| s.segments.iter().map(|x| *x.place)).collect()) }

pub struct Case { pub rules: Vec<String>, pub word: String }

fn toned_word(r: &mut Rng) -> String {
    let n = r.range(2, 4);
    (0..n).map(|_| format!("{}{}{}", r.pick(&CONS), r.pick(&VOWS), [5u16, 51, 214, 1234, 35, 3, 12, 4321][r.below(8)])).collect::<Vec<_>>().join("")
}

pub(crate) fn gen(r: &mut Rng, corpus: &[String]) -> Case {
    let k = r.range(1, 6);
    let mut rules = Vec::new();
    for _ in 0..k {
        rules.push(match r.below(10) { 0 | 1 | 2 | 3 => r.pick(&TEMPLATES).to_string(), 4 | 5 if !corpus.is_empty() => r.pick(corpus).clone(), _ => plain(&rand_rule(r, &RuleCfg::default())) });
    }
    let word = if r.chance(1, 4) { toned_word(r) } else { rand_word(r, &WordCfg::default()) };
    Case { rules, word }
}

pub fn judge(rep: &mut Report, c: &Case) {
    rep.eval(1);
    let cj = || json!({"rules": c.rules, "word": c.word});
    let Ok(w) = parse_word(&c.word) else { rep.obs("word_rejected", 1); return };
    if w.syllables.is_empty() { return }
    if let Some(v) = check_word(&w) { rep.violation(format!("parsed-word:{}", class(&v)), || json!({"case": cj(), "observed": v})); return }
    let groups: Vec<RuleGroup> = c.rules.iter().map(|x| RuleGroup::from_rules(vec![x.clone()])).collect();
    let rules = match compile_groups(&groups) { Ok(x) => x, Err(Applied::Abort(s)) => { rep.abort(s, cj); return } Err(_) => { rep.obs("rules_rejected", 1); return } };
    match apply_all(&rules, &w) {
        Ok(states) => {
            rep.obs("successful_runs", 1);
            for (i, st) in states.iter().enumerate() {
                if let Some(v) = check_word(st) {
                    // name the construct of the rule that produced the bad word
                    let culprit = crate::c02::shape_of(&c.rules[i]);
                    rep.violation(format!("{} after `{}`", class(&v), culprit), || json!({"case": cj(), "group": i, "rule": c.rules[i], "observed": v, "word_after": sw::dump_json(st)}));
                    return;
                }
            }
            if states.last().map(shape) != Some(shape(&w)) { rep.nontrivial(hash64(&(&c.rules, &c.word))); if rep.samples.len() < 4 { let v = json!({"rules": c.rules, "word": c.word, "after_each_group": states.iter().map(sw::render).collect::<Vec<_>>()}); rep.sample(|| v); } }
        }
        Err(Applied::Abort(s)) => rep.abort(s, cj),
        Err(_) => {
            rep.obs("runs_returning_err", 1);
            // some group fails: the words after the groups before it were reached all the same (a trace shows them) and are checked
            let mut cur = w.clone();
            for (i, rule) in c.rules.iter().enumerate() {
                let Ok(pr) = compile1(rule) else { break };
                match apply(&pr, &cur) {
                    Applied::Ok(st) => { if let Some(v) = check_word(&st) { let culprit = crate::c02::shape_of(rule); rep.violation(format!("{} after `{}`", class(&v), culprit), || json!({"case": cj(), "group": i, "rule": rule, "observed": v, "word_after": sw::dump_json(&st)})); return } cur = st; }
                    _ => break,
                }
            }
        }
    }
}

pub fn explore(ctx: &Ctx, shard: usize, n: usize) -> Report {
    let (corpus, _) = harvest(&ctx.repo);
    let mut rep = drive::cases(ctx, shard, n, RULE, 0x08, 300_000, 80_000_000, |r, rep, _| { let c = gen(r, &corpus); judge(rep, &c); });
    // every single-feature and single-node setter on EVERY segment the notation can write (base + <= 1 diacritic): the place
    // invariants (no payload under an absent sub-node, never a present-but-empty place) over the whole finite space, plus the
    // node copied from a neighbour by an alpha
    let segs = single_segments(1);
    let mut setters: Vec<String> = Vec::new();
    for (name, _, _) in crate::c04::F { for sg in ['+', '-'] { setters.push(format!("[] > [{sg}{name}]")); } }
    for nd in crate::c04::SUBNODES { for sg in ['+', '-'] { setters.push(format!("[] > [{sg}{nd}]")); } }
    setters.push("[] > [-place]".into());
    for (k, rule) in setters.iter().enumerate() {
        if k % n != shard { continue }
        let Ok(pr) = compile1(rule) else { continue };
        for (t, w) in &segs {
            rep.eval(1);
            if let Applied::Ok(g) = apply(&pr, w) {
                if let Some(v) = check_word(&g) { let (r2, t2) = (rule.clone(), t.clone()); rep.violation(format!("{} after `{}` (segment sweep)", class(&v), rule), || json!({"case": {"rules": [r2], "word": t2}, "observed": v})); }
                else if g != *w { rep.nontrivial_enum(1); }
            }
        }
    }
    rep
}

pub fn replay(_ctx: &Ctx, case: &Value) -> Report {
    let mut rep = Report::new(RULE);
    judge(&mut rep, &Case { rules: jstrs(case, "rules"), word: jstr(case, "word") });
    rep
}
