//! C20 – a `seq` project is the composition of its stages, as configured.
use crate::cli::*;
use crate::{drive, report::Report, run::*, util::*, Ctx};
use asca::RuleGroup;
use serde_json::{json, Value};

const RULE: &str = "generated project trees: 1-4 tags in chains and forks of % references, 1-3 rule files per tag (2-4 uniquely named groups each) with random filters (`! {..}` one or several, `~ {..}` one or several in an order different from the file's, names in mixed case), 1-2 word files on root tags and sometimes extra word files on piped tags, optional deromaniser-only alias on a root tag; `asca seq <dir> -o -y` and `-t <tag>` must write under out/<tag>/ exactly the fold of asca::run over the configured entries (a stage that errors yields no file); cyclic variants (self-loop, 2- and 3-cycles, a cycle that does not contain the requested tag, a dangling %ref) must exit non-zero within the step budget and write nothing; `conv tag --recurse` on pipelines without extra words must export a project whose single run equals the tag's file. Non-trivial = at least two stages changed words and a filter removed or reordered a group; distinct = distinct project trees.";

#[derive(Clone)]
/// `spell`: how the config names the file - 0 `"rules0"`, 1 `"./rules0"`, 2 `"rules0.rsca"`
struct Entry { file: String, filter: Option<(char, Vec<String>)>, spell: u8 }
#[derive(Clone)]
struct Tag { name: String, from: Option<usize>, alias: bool, words: Vec<String>, entries: Vec<Entry> }
struct Tree { tags: Vec<Tag>, rule_files: Vec<(String, Vec<RuleGroup>)>, word_files: Vec<(String, Vec<String>)>, into: Vec<String>, from: Vec<String> }

fn mixed_case(r: &mut Rng, s: &str) -> String { s.chars().map(|c| if r.chance(1, 3) { c.to_uppercase().next().unwrap_or(c) } else if r.chance(1, 3) { c.to_lowercase().next().unwrap_or(c) } else { c }).collect() }

fn gen_tree(r: &mut Rng) -> Tree {
    let nfiles = r.range(2, 4);
    let rule_files: Vec<(String, Vec<RuleGroup>)> = (0..nfiles).map(|f| (if f == 1 && r.chance(1, 3) { format!("sub/rules{f}") } else { format!("rules{f}") }, (0..r.range(2, 4)).map(|i| rand_group(r, f * 10 + i, true)).collect())).collect();
    let word_files: Vec<(String, Vec<String>)> = (0..3).map(|f| (format!("lex{f}"), (0..r.range(2, 6)).map(|_| crate::gen::rand_word(r, &crate::gen::WordCfg { tone: false, ..Default::default() })).collect())).collect();
    let ntags = r.range(1, 4);
    let mut tags = Vec::new();
    for t in 0..ntags {
        let from = if t > 0 && r.chance(3, 4) { Some(r.below(t)) } else { None };
        let words = if from.is_none() { (0..r.range(1, 2)).map(|k| format!("lex{}", (t + k) % 3)).collect() } else if r.chance(1, 5) { vec![format!("lex{}", r.below(3))] } else { vec![] };
        let entries = (0..r.range(1, 3)).map(|_| {
            let fi = r.below(nfiles); let names: Vec<String> = rule_files[fi].1.iter().map(|g| g.name.clone()).collect();
            let filter = match r.below(6) {
                0 => { let nm: String = r.pick(&names[..]).clone(); Some(('!', vec![mixed_case(r, &nm)])) }
                1 if names.len() > 2 => { let mut n = names.clone(); r.shuffle(&mut n); n.truncate(2); Some(('!', n.iter().map(|x| mixed_case(r, x)).collect())) }
                2 => { let nm: String = r.pick(&names[..]).clone(); Some(('~', vec![mixed_case(r, &nm)])) }
                3 => { let mut n = names.clone(); r.shuffle(&mut n); n.truncate(r.range(2, names.len())); n.reverse(); Some(('~', n.iter().map(|x| mixed_case(r, x)).collect())) }
                _ => None,
            };
            Entry { file: rule_files[fi].0.clone(), filter, spell: [0u8, 0, 0, 1, 2][r.below(5)] }
        }).collect();
        tags.push(Tag { name: format!("tag{t}"), from, alias: r.chance(1, 3), words, entries });
    }
    // the alias file always has deromanisers; half of the time also romanisers that invert them (what a stage prints, the next reads back)
    let from = if r.chance(1, 2) { vec!["ʒ > Ж".to_string(), "ʃ > ш".to_string()] } else { vec![] };
    Tree { tags, rule_files, word_files, into: vec!["Ж > ʒ".to_string(), "ш > ʃ".to_string()], from }
}

fn config_text(tree: &Tree, r: &mut Rng, from_override: &[(usize, String)]) -> String {
    // lexical variety the config grammar allows: comments anywhere between items, lists over several lines, trailing commas in
    // lists and filters, `$alias` before or after `%tag`, CRLF line ends
    let comment = |r: &mut Rng| if r.chance(1, 6) { format!("# {}\n", ["a comment", "@not a tag", "todo: \"x\" ~ {y}", ""][r.below(4)]) } else { String::new() };
    let list = |r: &mut Rng, items: Vec<String>| -> String { let sep = if r.chance(1, 5) { ",\n        " } else { ", " }; format!("{}{}", items.join(sep), if r.chance(1, 4) { "," } else { "" }) };
    let mut s = String::from("# generated project\n");
    for (ti, t) in tree.tags.iter().enumerate() {
        s += &comment(r);
        s += &format!("@{}", t.name);
        let from_name = from_override.iter().find(|o| o.0 == ti).map(|o| o.1.clone()).or(t.from.map(|f| tree.tags[f].name.clone()));
        let alias_first = r.chance(1, 3);
        if t.alias && alias_first { s += " $roman" }
        if let Some(f) = from_name { s += &format!(" %{f}") }
        if t.alias && !alias_first { s += " $roman" }
        if !t.words.is_empty() { s += &format!(" [{}]", list(r, t.words.iter().map(|w| format!("\"{w}\"")).collect())) }
        s += ":";
        let nl = r.chance(1, 2);
        for (i, e) in t.entries.iter().enumerate() {
            s += if nl { "\n    " } else { " " };
            if nl { let c = comment(r); if !c.is_empty() { s += &c; s += "    "; } }
            s += &match e.spell { 1 => format!("\"./{}\"", e.file), 2 => format!("\"{}.rsca\"", e.file), _ => format!("\"{}\"", e.file) };
            if let Some((k, names)) = &e.filter { s += &format!(" {k} {{{}}}", list(r, names.iter().map(|n| format!("\"{n}\"")).collect())); }
            if i + 1 < t.entries.len() || r.chance(1, 3) { s += "," }
        }
        s += "\n\n";
    }
    if r.chance(1, 4) { s += "# the end" }
    if r.chance(1, 5) { s = s.replace('\n', "\r\n") }
    s
}

fn write_tree(dir: &std::path::Path, tree: &Tree, r: &mut Rng, conf: &str) {
    std::fs::create_dir_all(dir.join("sub")).ok();
    for (name, groups) in &tree.rule_files { std::fs::write(dir.join(format!("{name}.rsca")), rsca_text(groups, r)).ok(); }
    for (name, words) in &tree.word_files { std::fs::write(dir.join(format!("{name}.wsca")), words.join("\n")).ok(); }
    let sec = |tag: &str, v: &[String]| format!("{tag}\n{}\n", v.iter().map(|x| format!("    {x}")).collect::<Vec<_>>().join("\n"));
    let (a, b) = (sec("@into", &tree.into), if tree.from.is_empty() { String::new() } else { sec("@from", &tree.from) });
    std::fs::write(dir.join("roman.alias"), if r.chance(1, 2) { format!("{a}{b}") } else { format!("{b}{a}") }).ok();
    std::fs::write(dir.join("project.asca"), conf).ok();
}

fn filtered(tree: &Tree, e: &Entry) -> Vec<RuleGroup> {
    let groups = &tree.rule_files.iter().find(|f| f.0 == e.file).unwrap().1;
    match &e.filter {
        None => groups.clone(),
        Some(('!', names)) => { let low: Vec<String> = names.iter().map(|n| n.to_lowercase()).collect(); groups.iter().filter(|g| !low.contains(&g.name.to_lowercase())).cloned().collect() }
        Some((_, names)) => names.iter().filter_map(|n| groups.iter().find(|g| g.name.to_lowercase() == n.to_lowercase()).cloned()).collect(),
    }
}

thread_local! { static ABORTED: std::cell::RefCell<Option<String>> = const { std::cell::RefCell::new(None) }; }

thread_local! { static STEPS: std::cell::RefCell<std::collections::HashMap<usize, Vec<Vec<String>>>> = std::cell::RefCell::new(std::collections::HashMap::new()); }

/// the model: final words of a tag (None if any stage errors), number of stages that changed words; the words after every entry
/// of the tag are left in STEPS (what `-i` writes)
fn model(tree: &Tree, ti: usize, memo: &mut Vec<Option<Option<(Vec<String>, usize)>>>) -> Option<(Vec<String>, usize)> {
    if let Some(m) = &memo[ti] { return m.clone() }
    let t = &tree.tags[ti];
    let res = (|| {
        let mut changed = 0;
        let mut words: Vec<String> = match t.from { Some(p) => { let (w, c) = model(tree, p, memo)?; changed += c; w } None => vec![] };
        for wf in &t.words { if !words.is_empty() { words.push(String::new()) } words.extend(tree.word_files.iter().find(|f| f.0 == *wf).unwrap().1.clone()); }
        let (into, from): (Vec<String>, Vec<String>) = if t.alias { (tree.into.clone(), tree.from.clone()) } else { (vec![], vec![]) };
        let mut steps: Vec<Vec<String>> = Vec::new();
        for e in &t.entries {
            let next = match run_pub(&filtered(tree, e), &words, &into, &from) { Ok(n) => n, Err(Applied::Abort(sig)) => { ABORTED.with(|a| *a.borrow_mut() = Some(sig)); return None } Err(_) => return None };
            if next != words { changed += 1 }
            words = next;
            steps.push(words.clone());
        }
        STEPS.with(|m| { m.borrow_mut().insert(ti, steps); });
        Some((words, changed))
    })();
    memo[ti] = Some(res.clone());
    res
}

fn out_files(dir: &std::path::Path, tag: &str) -> Vec<(String, String)> {
    let d = dir.join("out").join(tag);
    let mut v: Vec<(String, String)> = std::fs::read_dir(&d).map(|rd| rd.filter_map(|e| e.ok()).filter_map(|e| Some((e.file_name().to_string_lossy().to_string(), std::fs::read_to_string(e.path()).ok()?))).collect()).unwrap_or_default();
    v.sort();
    v
}

pub fn explore(ctx: &Ctx, shard: usize, n: usize) -> Report {
    let seed = ctx.seed;
    let rep = drive::cases(ctx, shard, n, RULE, STREAM, 400, 80000, |r, rep, i| one(r, rep, i, shard, seed));
    cleanup_root("c20", shard);
    rep
}

const STREAM: u64 = 0x20;

/// one generated project tree: every random choice (tree, serialisation, tag picked, cyclic variant) comes from `r`,
/// so (VERIF_SEED, case index) reproduces the case exactly - which is what a replay file records under "regen"
fn one(r: &mut Rng, rep: &mut Report, i: u64, shard: usize, seed: u64) {
    {
        let tree = gen_tree(r);
        let dir = scratch("c20", shard, i);
        let conf = config_text(&tree, r, &[]);
        write_tree(&dir, &tree, r, &conf);
        let files = || json!({"regen": {"seed": seed, "index": i}, "project.asca": conf, "rules": tree.rule_files.iter().map(|(n, g)| json!({"file": n, "groups": g.iter().map(|x| json!({"name": x.name, "rule": x.rule})).collect::<Vec<_>>()})).collect::<Vec<_>>(), "words": tree.word_files.iter().map(|(n, w)| json!({"file": n, "words": w})).collect::<Vec<_>>()});
        rep.eval(1);
        // ---- all tags
        let ran = run_asca(&dir, &["seq", ".", "-o", "-y"]);
        if ran.timed_out { rep.obs("watchdog_inconclusive", 1); cleanup(&dir); return }
        let mut memo = vec![None; tree.tags.len()];
        ABORTED.with(|a| *a.borrow_mut() = None);
        let exp: Vec<Option<(Vec<String>, usize)>> = (0..tree.tags.len()).map(|t| model(&tree, t, &mut memo)).collect();
        // a panic or an exhausted step budget inside the library is C02's finding; the binary can only do the same
        if let Some(sig) = ABORTED.with(|a| a.borrow_mut().take()) { rep.abort(sig, files); cleanup(&dir); return }
        let mut ok = true;
        // (the exit status when some stage is in error is not part of the property; a crash is)
        let any_err = exp.iter().any(|x| x.is_none());
        if ran.code != Some(0) && (!any_err || ran.code.map(|c| c > 2).unwrap_or(true)) { rep.violation("seq:exit-status".into(), || json!({"case": files(), "code": ran.code, "stderr": ran.stderr, "stdout": ran.stdout.chars().take(1500).collect::<String>()})); ok = false; }
        if ok { for (ti, t) in tree.tags.iter().enumerate() {
            let got = out_files(&dir, &t.name);
            match &exp[ti] {
                Some((words, _)) => {
                    if got.len() != 1 { rep.violation("seq:number-of-output-files".into(), || json!({"case": files(), "tag": t.name, "observed": got.iter().map(|g| g.0.clone()).collect::<Vec<_>>(), "stdout": ran.stdout.chars().take(1200).collect::<String>()})); ok = false; break }
                    // (the file is named after the last entry, with a suffix describing its filter: the name is the program's business, but it starts with the entry's file name)
                    let stem = t.entries.last().map(|e| e.file.rsplit('/').next().unwrap_or("").to_string()).unwrap_or_default();
                    if !got[0].0.starts_with(&stem) || !got[0].0.ends_with(".wsca") { rep.violation("seq:output-file-name".into(), || json!({"case": files(), "tag": t.name, "expected": format!("{stem}*.wsca"), "observed": got[0].0})); ok = false; break }
                    if got[0].1 != words.join("\n") {
                        let what = if t.entries.iter().any(|e| e.filter.as_ref().map(|f| f.0 == '~' && f.1.len() > 1).unwrap_or(false)) { ":with-ordered-select-filter" } else if t.from.is_some() { ":piped" } else { "" };
                        rep.violation(format!("seq:output-differs-from-the-fold{what}"), || json!({"case": files(), "tag": t.name, "expected": words, "observed": got[0].1.split('\n').collect::<Vec<_>>()})); ok = false; break }
                }
                None => if !got.is_empty() { rep.violation("seq:file-written-although-a-stage-errors".into(), || json!({"case": files(), "tag": t.name})); ok = false; break } else { rep.obs("tags_with_a_failing_stage", 1); },
            }
        } }
        if ok {
            let filters = tree.tags.iter().flat_map(|t| t.entries.iter()).filter(|e| e.filter.is_some()).count();
            let stages: usize = exp.iter().flatten().map(|x| x.1).max().unwrap_or(0);
            if stages >= 2 && filters > 0 { rep.nontrivial(hash64(&conf)); if rep.samples.len() < 3 { let v = json!({"project.asca": conf, "out": tree.tags.iter().map(|t| json!({"tag": t.name, "files": out_files(&dir, &t.name)})).collect::<Vec<_>>()}); rep.sample(|| v); } }
            rep.obs("projects_ok", 1);
            // ---- single tag into a fresh copy
            let ti = r.below(tree.tags.len());
            let d2 = scratch("c20", shard, i + 1_000_000);
            write_tree(&d2, &tree, r, &conf);
            let ran = run_asca(&d2, &["seq", ".", "-t", &tree.tags[ti].name, "-o", "-y"]);
            let got = out_files(&d2, &tree.tags[ti].name);
            match &exp[ti] { Some((w, _)) => if ran.code != Some(0) || got.len() != 1 || got[0].1 != w.join("\n") { rep.violation("seq-t:single-tag-differs".into(), || json!({"case": files(), "tag": tree.tags[ti].name, "expected": w, "observed": got, "code": ran.code})); }, None => {} }
            // ---- the same tag with -i: one numbered file per entry, holding the words after that entry
            if exp[ti].is_some() && r.chance(1, 2) {
                let d4 = scratch("c20", shard, i + 3_000_000);
                write_tree(&d4, &tree, r, &conf);
                let ran = run_asca(&d4, &["seq", ".", "-t", &tree.tags[ti].name, "-o", "-y", "-i"]);
                let got = out_files(&d4, &tree.tags[ti].name);
                let steps = STEPS.with(|m| m.borrow().get(&ti).cloned().unwrap_or_default());
                let want: Vec<(String, String)> = tree.tags[ti].entries.iter().zip(&steps).enumerate().map(|(k, (e, w))| (format!("{}_{}", k + 1, e.file.rsplit('/').next().unwrap_or("")), w.join("\n"))).collect();
                // one file per entry, named <n>_<entry file>[_<filter>].wsca
                let same = got.len() == want.len() && want.iter().all(|(stem, content)| got.iter().filter(|g| g.0.starts_with(stem.as_str()) && g.0.ends_with(".wsca") && g.1 == *content).count() >= 1);
                if ran.code != Some(0) || !same { rep.violation("seq-i:intermediate-files-differ".into(), || json!({"case": files(), "tag": tree.tags[ti].name, "expected": want, "observed": got, "code": ran.code})); } else { rep.obs("intermediate_file_sets_ok", 1); }
                cleanup(&d4);
            }
            // ---- conv tag --recurse
            let t = &tree.tags[ti];
            // (the export is ONE run with the root's aliases: comparable only when no word files join mid-pipeline and the stages had no
            //  romanisers or aliases of their own)
            let chain_ok = { let mut k = Some(ti); let mut good = true; while let Some(x) = k { if tree.tags[x].from.is_some() && (!tree.tags[x].words.is_empty() || tree.tags[x].alias) { good = false } if tree.tags[x].alias && !tree.from.is_empty() { good = false } k = tree.tags[x].from; } good };
            if t.from.is_some() && chain_ok && exp[ti].is_some() {
                let ran = run_asca(&d2, &["conv", "tag", &t.name, "-p", ".", "-r", "-o", "export.json"]);
                let ex: Option<Value> = std::fs::read_to_string(d2.join("export.json")).ok().and_then(|x| serde_json::from_str(&x).ok());
                match ex {
                    Some(ex) if ran.code == Some(0) => {
                        let groups: Vec<RuleGroup> = ex["rules"].as_array().map(|a| a.iter().map(|g| RuleGroup::from(jstr(g, "name"), jstrs(g, "rule"), jstr(g, "description"))).collect()).unwrap_or_default();
                        let whole = run_pub(&groups, &jstrs(&ex, "words"), &jstrs(&ex, "into"), &jstrs(&ex, "from"));
                        let w = &exp[ti].as_ref().unwrap().0;
                        // the export is one run, the tag is a staged run: they can only be compared when no stage output contains U+FFFD (C10's proviso)
                        if w.iter().all(|x| !x.contains('\u{fffd}')) { match whole { Ok(res) if res == *w => rep.obs("recursive_exports_ok", 1), other => { let o = other.map_err(|e| e.tag()); rep.violation("conv-tag:export-does-not-reproduce-the-tag".into(), || json!({"case": files(), "tag": t.name, "expected": w, "observed": format!("{o:?}")})); } } }
                    }
                    _ => rep.violation("conv-tag:failed".into(), || json!({"case": files(), "tag": t.name, "code": ran.code, "stderr": ran.stderr})),
                }
            }
            cleanup(&d2);
            // ---- cyclic / dangling variants of the same tree
            let nt = tree.tags.len();
            let mut variants: Vec<(String, Vec<(usize, String)>, Option<String>)> = vec![("self-loop".into(), vec![(0, "tag0".into())], None), ("dangling-ref".into(), vec![(nt - 1, "nosuchtag".into())], None)];
            if nt >= 2 { variants.push(("two-cycle".into(), vec![(0, "tag1".into()), (1, "tag0".into())], None)); variants.push(("cycle-not-containing-the-requested-tag".into(), vec![(nt - 2, format!("tag{}", nt - 1)), (nt - 1, format!("tag{}", nt - 2))], Some("tag0".into()))); }
            if nt >= 3 { variants.push(("three-cycle".into(), vec![(0, "tag2".into()), (1, "tag0".into()), (2, "tag1".into())], None)); }
            let (vname, over, req) = variants[r.below(variants.len())].clone();
            if !(vname.starts_with("cycle-not") && nt < 3) {
                let d3 = scratch("c20", shard, i + 2_000_000);
                let c3 = config_text(&tree, r, &over);
                write_tree(&d3, &tree, r, &c3);
                let ran = match &req { Some(t) => run_asca(&d3, &["seq", ".", "-t", t, "-o", "-y"]), None => run_asca(&d3, &["seq", ".", "-o", "-y"]) };
                rep.eval(1);
                if ran.timed_out { rep.violation(format!("cycle:{vname}:does-not-terminate"), || json!({"case": {"regen": {"seed": seed, "index": i}, "project.asca": c3}})); }
                else if ran.code == Some(0) || d3.join("out").exists() { rep.violation(format!("cycle:{vname}:not-rejected"), || json!({"case": {"regen": {"seed": seed, "index": i}, "project.asca": c3}, "code": ran.code, "stdout": ran.stdout.chars().take(800).collect::<String>(), "wrote_out_dir": d3.join("out").exists()})); }
                else if ran.stderr.contains("VERIF_BUDGET") || ran.code.map(|c| c > 1).unwrap_or(true) { rep.violation(format!("cycle:{vname}:crashes-instead-of-reporting"), || json!({"case": {"regen": {"seed": seed, "index": i}, "project.asca": c3}, "code": ran.code, "stderr": ran.stderr.chars().take(600).collect::<String>()})); }
                else { rep.obs("cyclic_configs_rejected", 1); }
                cleanup(&d3);
            }
        }
        cleanup(&dir);
    }
}

pub fn replay(_ctx: &Ctx, v: &Value) -> Report {
    // the project tree is regenerated from (seed, case index) and judged again; the witness also keeps its files for inspection
    let mut rep = Report::new(RULE);
    let g = &v["regen"];
    match (g["seed"].as_u64(), g["index"].as_u64()) {
        (Some(seed), Some(i)) => { let mut r = Rng::new(seed, (STREAM << 40) ^ i); one(&mut r, &mut rep, i, 9000, seed); cleanup_root("c20", 9000); }
        _ => rep.notes.push("witness without a `regen` member: cannot be regenerated".into()),
    }
    rep
}
