//! C02 – every call returns: no panic, no abort, no endless loop.
//! Monitor: every case runs in a worker *process* under `isol::guard` (catch_unwind + step budget);
//! the worker publishes the index of the case it is about to run, so a case that kills the process
//! (stack overflow, abort, allocation failure) is identified by the parent, recorded as a violation,
//! and the shard is restarted after it. Conservation check: assigned = completed + killed.
use crate::gen::*;
use crate::isol::{guard, hot_sig, Outcome};
use crate::{report::Report, util::*, Ctx};
use asca::RuleGroup;
use serde_json::{json, Value};
use std::io::{Seek, SeekFrom, Write};

const RULE: &str = "calls of run / trace_changes / get_trace_string on (a) rules from the full-grammar generator at every nesting x generated words, (b) 0-3 token-level mutations (delete / duplicate / swap / replace by a corpus token / numeric literal from {0,1,9,65535,65536,2^32±1,2^64±1, 20 digits}) of the rules harvested from src/rule.rs tests and doc.md, on harvested and generated words, (c) raw character noise over the lexers' special characters, IPA, diacritics, digits and ASCII for rules, words and alias lines, (d) degenerate words (empty, one segment, 40-segment syllable, 30 syllables, only boundaries); each under a step budget b0 + k*(segments+1)*(rule chars+1) calibrated on the unchanged tree (the largest ticks/budget ratio seen is reported in `observed`). Non-trivial = the call got past parsing (returned Ok, or Err at rule-application time, or aborted); distinct = distinct (rules, words, aliases, entry point).";

pub const B0: u64 = 5_000;
pub const K: u64 = 100;
/// a case that exhausts its budget is re-run once with RETRY x the budget: returning then = slow (inconclusive), exhausting again = hang.
/// (kept small on purpose: a runaway insertion grows the word on every step, so wall time is quadratic in the budget)
pub const RETRY: u64 = 2;
pub const WATCHDOG_S: u64 = 120;
pub const BIG: u64 = 64;

#[derive(Clone, Debug)]
pub struct Case { pub groups: Vec<Vec<String>>, pub words: Vec<String>, pub into: Vec<String>, pub from: Vec<String>, pub entry: u8, pub family: &'static str }

impl Case {
    pub fn to_json(&self) -> Value { json!({"groups": self.groups, "words": self.words, "into": self.into, "from": self.from, "entry": self.entry, "family": self.family}) }
    pub fn from_json(v: &Value) -> Case {
        let groups = v["groups"].as_array().map(|a| a.iter().map(|g| g.as_array().map(|x| x.iter().map(|s| s.as_str().unwrap_or("").to_string()).collect()).unwrap_or_default()).collect()).unwrap_or_default();
        Case { groups, words: jstrs(v, "words"), into: jstrs(v, "into"), from: jstrs(v, "from"), entry: ju64(v, "entry") as u8, family: "replay" }
    }
    fn rule_groups(&self) -> Vec<RuleGroup> { self.groups.iter().enumerate().map(|(i, g)| RuleGroup::from(format!("g{i}"), g.clone(), String::new())).collect() }
    pub fn budget(&self) -> u64 {
        let segs: u64 = self.words.iter().map(|w| w.chars().count() as u64 + 1).sum::<u64>().max(1);
        let rc: u64 = self.groups.iter().flatten().map(|r| r.chars().count() as u64 + 1).sum::<u64>() + self.into.iter().chain(&self.from).map(|a| a.chars().count() as u64 + 1).sum::<u64>() + 1;
        B0 + K * (segs + 1) * rc
    }
}

const NUMS: [&str; 12] = ["0", "1", "9", "65535", "65536", "4294967295", "4294967296", "4294967297", "18446744073709551615", "18446744073709551616", "18446744073709551617", "99999999999999999999"];
const NOISE: &str = "[]{}()⟨⟩<>:=_->,#$%&*∅/|;.…+-αβγABCVOSPFLNG0123456789 aeioupptkbdgmnszʃʒŋɲθxhʔlrjwɡʷʲʰːˈˌ'\u{0361}\u{035C}^\u{0303}\u{0325}\u{032A}ǃǀʘɢɴ¢ƛλłñ~!?@\\\"\t";

pub fn toks(s: &str) -> Vec<String> {
    let cs: Vec<char> = s.chars().collect();
    let mut v = Vec::new(); let mut i = 0;
    while i < cs.len() {
        if cs[i] == '[' { let mut j = i; while j < cs.len() && cs[j] != ']' { j += 1 } let e = (j + 1).min(cs.len()); v.push(cs[i..e].iter().collect()); i = e; }
        else if cs[i].is_ascii_digit() { let mut j = i; while j < cs.len() && cs[j].is_ascii_digit() { j += 1 } v.push(cs[i..j].iter().collect()); i = j; }
        else { v.push(cs[i].to_string()); i += 1; }
    }
    v
}

pub struct Corpus { pub rules: Vec<String>, pub words: Vec<String>, pub toks: Vec<String> }
impl Corpus {
    pub fn load(repo: &str) -> Corpus {
        let (rules, words) = harvest(repo);
        let mut t: Vec<String> = rules.iter().flat_map(|r| toks(r)).collect();
        t.sort(); t.dedup();
        Corpus { rules, words, toks: t }
    }
}

fn noise(r: &mut Rng, max: usize) -> String { let cs: Vec<char> = NOISE.chars().collect(); let n = r.below(max + 1); (0..n).map(|_| *r.pick(&cs)).collect() }

fn mutate(r: &mut Rng, c: &Corpus, base: &str, k: usize) -> String {
    let mut t = toks(base);
    for _ in 0..k {
        if t.is_empty() { break }
        match r.below(9) {
            0 => { let i = r.below(t.len()); t.remove(i); }
            1 => { let i = r.below(t.len() + 1); t.insert(i, r.pick(&c.toks).clone()); }
            2 => { let i = r.below(t.len()); t[i] = r.pick(&c.toks).clone(); }
            3 => { let i = r.below(t.len()); let j = r.below(t.len()); t.swap(i, j); }
            4 => { let i = r.below(t.len()); let x = t[i].clone(); t.insert(i, x); }
            6 | 7 => {
                // inside a matrix: another modifier (±, alpha, inverted alpha) or another feature name (any synonym, incl. tone/length/stress)
                let ms: Vec<usize> = t.iter().enumerate().filter(|(_, x)| x.starts_with('[') && x.len() > 2).map(|x| x.0).collect();
                if ms.is_empty() { continue }
                let i = *r.pick(&ms);
                let closed = t[i].ends_with(']');
                let body: String = t[i].trim_start_matches('[').trim_end_matches(']').to_string();
                let mut items: Vec<String> = body.split(',').map(|x| x.trim().to_string()).collect();
                let j = r.below(items.len());
                let it = items[j].clone();
                let (pre, name): (String, String) = { let cs: Vec<char> = it.chars().collect(); let mut k = 0; if k < cs.len() && cs[k] == '-' { k += 1 } if k < cs.len() && (cs[k] == '+' || cs[k].is_uppercase() || ('α'..='ω').contains(&cs[k])) && !(k == 0 && cs[0] == '-' && false) { k += 1 } if it.starts_with('-') && k == 1 { (cs[..1].iter().collect(), cs[1..].iter().collect()) } else { (cs[..k].iter().collect(), cs[k..].iter().collect()) } };
                let names: Vec<&str> = FEATS.iter().chain(NODES.iter()).chain(SUPRAS.iter()).cloned().chain(["tone", "tn", "ton", "root", "manner", "laryngeal"].into_iter()).collect();
                items[j] = match r.below(3) {
                    0 => format!("{}{}", ["+", "-", "A", "α", "-A", "-α", "B", "", "±"][r.below(9)], name.trim()),
                    1 => { let n = *r.pick(&names); let syn = synonyms(n); format!("{pre}{}", if syn.is_empty() { n } else { syn[r.below(syn.len())] }) }
                    _ => format!("{}:{}", ["tone", "long", "stress", "Atone", "+tone"][r.below(5)], r.pick(&NUMS)),
                };
                t[i] = format!("[{}{}", items.join(", "), if closed { "]" } else { "" });
            }
            _ => { let digits: Vec<usize> = t.iter().enumerate().filter(|(_, x)| x.chars().all(|c| c.is_ascii_digit())).map(|x| x.0).collect();
                   if digits.is_empty() { let i = r.below(t.len() + 1); t.insert(i, r.pick(&NUMS).to_string()); } else { let i = *r.pick(&digits); t[i] = r.pick(&NUMS).to_string(); } }
        }
    }
    t.concat()
}

fn degenerate_word(r: &mut Rng) -> String {
    match r.below(8) {
        0 => String::new(),
        1 => rand_seg(r),
        2 => (0..40).map(|i| if i % 2 == 0 { r.pick(&CONS).to_string() } else { r.pick(&VOWS).to_string() }).collect(),
        3 => (0..30).map(|_| format!("{}{}", r.pick(&CONS), r.pick(&VOWS))).collect::<Vec<_>>().join("."),
        4 => "...".into(),
        5 => "ˈ".into(),
        6 => format!("{}ːːːːːː", r.pick(&VOWS)),
        _ => format!("{}{}", r.pick(&VOWS), r.pick(&NUMS)),
    }
}

fn alias_line(r: &mut Rng, deromaniser: bool) -> String {
    let seg = rand_seg(r);
    let repl = ["sh", "ä", "x'", "\\@", "@{acute}", "+@{macron}", "\\u{00FE}", "Q", "*", "∅", "ng", "@{Space}", "@{bogus}", "\\u{110000}", "\\u{D800}"];
    let rp = r.pick(&repl).to_string();
    match (deromaniser, r.below(6)) {
        (false, 0) => "$ > *".into(),
        (false, 1) => format!("{seg}:[+long] > {rp}"),
        (false, 2) => format!("V:[+stress] => {rp}"),
        (false, _) => format!("{seg}, {} > {rp}, {}", rand_seg(r), r.pick(&repl)),
        (true, 0) => format!("{rp} > {seg}:[tone: {}]", r.pick(&NUMS)),
        (true, 1) => format!("{rp} > [+nasal]"),
        (true, _) => format!("{rp} > {seg}"),
    }
}

/// the case with index `idx` of the stream `seed` – reproducible from two integers
pub fn gen_case(seed: u64, idx: u64, corpus: &Corpus) -> Case {
    let mut r = Rng::new(seed, idx.wrapping_mul(2).wrapping_add(0xC02));
    let family = r.below(10);
    let wc = WordCfg::default();
    let mut words: Vec<String> = Vec::new();
    let nw = r.range(1, 3);
    for _ in 0..nw {
        words.push(match r.below(10) { 0 | 1 | 2 if !corpus.words.is_empty() => r.pick(&corpus.words).clone(), 3 => degenerate_word(&mut r), 4 => noise(&mut r, 12), _ => rand_word(&mut r, &wc) });
    }
    if r.chance(1, 8) { let a = words[0].clone(); let b = rand_word(&mut r, &wc); words[0] = format!("{a} {b}"); }
    let mut late_from: Option<Vec<String>> = None;
    let (groups, fam): (Vec<Vec<String>>, &'static str) = match family {
        0 | 1 | 2 | 3 => {
            let ng = r.range(1, 2);
            let asts: Vec<Vec<Rule>> = (0..ng).map(|_| (0..r.range(1, 2)).map(|_| rand_rule(&mut r, &RuleCfg::default())).collect()).collect();
            // half of these get a word instantiated from the first rule, so that the rule gets deep into matching and transforming
            if r.chance(1, 2) { if let Some(w) = witness_word(&asts[0][0], &mut r) { let k = r.below(words.len()); words[k] = w; } }
            (asts.iter().map(|g| g.iter().map(plain).collect()).collect(), "grammar")
        }
        4 | 5 | 6 if !corpus.rules.is_empty() => { let k = r.below(4); let base = r.pick(&corpus.rules).clone(); (vec![vec![mutate(&mut r, corpus, &base, k)]], "token-mutant") }
        7 => { let base = plain(&rand_rule(&mut r, &RuleCfg::default())); let k = r.range(1, 3); (vec![vec![mutate(&mut r, corpus, &base, k)]], "grammar-mutant") }
        8 => (vec![vec![noise(&mut r, 24)]], "noise"),
        9 if idx % 2 == 0 => {
            // what the other properties' monitors generate (their templates, identity rules, shorthands, tier rules, rule lists,
            // planted rules with words instantiated from them): C02's workload is meant to be the union of theirs
            match r.below(8) {
                7 => {
                    // many features set at once make a segment far from every base phone; a `+` romaniser then has to find the nearest one
                    let mut fs: Vec<usize> = (0..26).collect(); r.shuffle(&mut fs); fs.truncate(r.range(10, 26));
                    let body: Vec<String> = fs.iter().map(|f| format!("{}{}", if r.chance(2, 3) { '+' } else { '-' }, crate::c04::F[*f].0)).collect();
                    let nodes = ["", ", +lab", ", +cor", ", +dor", ", +phr", ", +lab, +cor, +dor, +phr"][r.below(6)];
                    words = vec![rand_word(&mut r, &wc)];
                    late_from = Some(vec![[ "[+cons] > +@{acute}", "V > +x", "[-voice] > +@{under dot}", "C > +h" ][r.below(4)].to_string()]);
                    (vec![vec![format!("{} > [{}{nodes}]", ["a", "V", "C", "[]", "t"][r.below(5)], body.join(", "))]], "monitor-templates")
                }
                0 => { let c = crate::c08::gen(&mut r, &corpus.rules); words = vec![c.word]; (c.rules.into_iter().map(|x| vec![x]).collect(), "monitor-templates") }
                1 => { let c = crate::c07::gen(&mut r); words = vec![c.word]; (vec![vec![c.rule]], "monitor-templates") }
                2 => { let c = crate::c12::gen(&mut r); words = c.words; (vec![if r.chance(1, 2) { c.short } else { c.long }], "monitor-templates") }
                3 => { let c = crate::c14::gen(&mut r); words = vec![c.word]; (vec![vec![c.rule]], "monitor-templates") }
                4 => { let c = crate::c16::gen(&mut r); words = vec![c.phrase]; (c.groups, "monitor-templates") }
                5 => { let c = crate::c11::gen(&mut r); words = c.lines; (vec![c.rules], "monitor-templates") }
                _ => { let c = crate::c06::gen(&mut r); words = vec![c.word]; (vec![vec![if r.chance(1, 2) { c.rule } else { c.unplanted }]], "monitor-templates") }
            }
        }
        _ => { let base = if corpus.rules.is_empty() { "a > e".to_string() } else { r.pick(&corpus.rules).clone() }; (vec![vec![base], vec![], vec![";; comment".into(), "".into()]], "corpus") }
    };
    let mut into = Vec::new(); let mut from = Vec::new();
    if let Some(f) = late_from { from = f; }
    if r.chance(1, 6) { for _ in 0..r.range(1, 2) { from.push(if r.chance(1, 5) { noise(&mut r, 14) } else { alias_line(&mut r, false) }); } }
    if r.chance(1, 8) { for _ in 0..r.range(1, 2) { into.push(if r.chance(1, 5) { noise(&mut r, 14) } else { alias_line(&mut r, true) }); } }
    Case { groups, words, into, from, entry: r.below(3) as u8, family: fam }
}

thread_local! { static BIG_TRIES: std::cell::Cell<u32> = const { std::cell::Cell::new(0) }; }

pub enum Res { Slow64, Ok { changed: bool }, Err(String), Panic(String), Hang(String), Superlinear, Slow, Growth(usize) }

fn exec(c: &Case, budget: u64) -> Outcome<Result<(Vec<String>, usize), asca::Error>> {
    let groups = c.rule_groups();
    guard(budget, || match c.entry {
        0 => asca::run(&groups, &c.words, &c.into, &c.from).map(|v| { let n = v.iter().map(|s| s.chars().count()).sum(); (v, n) }),
        1 => asca::trace_changes(&groups, c.words[0].clone(), &c.into).map(|ch| { let n = ch.iter().map(|x| x.after.iter().map(|w| w.syllables.iter().map(|s| s.segments.len()).sum::<usize>()).sum::<usize>()).max().unwrap_or(0); (vec![format!("{} changes", ch.len())], n) }),
        _ => asca::get_trace_string(&groups, c.words[0].clone(), &c.into).map(|v| { let n = v.last().map(|s| s.chars().count()).unwrap_or(0); (v, n) }),
    })
}

pub fn run_case(c: &Case) -> (Res, u64) {
    let b = c.budget();
    let inlen: usize = c.words.iter().map(|w| w.chars().count() + 1).sum::<usize>().max(1);
    let rlen: usize = c.groups.iter().flatten().map(|r| r.chars().count() + 1).sum::<usize>().max(1);
    let classify = |o: Outcome<Result<(Vec<String>, usize), asca::Error>>| -> Option<Res> {
        match o {
            Outcome::Done(Ok((out, n))) => Some(if n > 64 * inlen * rlen + 64 { Res::Growth(n) } else { Res::Ok { changed: c.entry != 0 || out != c.words } }),
            Outcome::Done(Err(e)) => Some(Res::Err(err_kind(&e))),
            Outcome::Panic { sig, .. } => Some(Res::Panic(sig)),
            Outcome::Budget { .. } => None,
        }
    };
    let o = exec(c, b);
    let ticks = crate::isol::last_ticks();
    if let Some(r) = classify(o) { return (r, ticks) }
    // budget exhausted: retry with RETRY x; returning now = slow (inconclusive), exhausted again = hang
    match exec(c, b.saturating_mul(RETRY)) {
        Outcome::Budget { hot, .. } => {
            // a rule with an ellipsis or an optional in it may be backtracking rather than looping: one more try with
            // BIG x the budget; returning then = superlinear (a violation of the proportional bound, but not a hang)
            // (only when the ellipsis / optional matching loops - tick sites 40..=47 - are among the hot sites: a runaway
            //  insertion grows the word on every pass, and 64x its budget would take quadratic time)
            let backtracking = c.groups.iter().flatten().any(|r| r.contains("..") || r.contains('…') || r.contains('(')) && hot.iter().any(|(s, _)| (40..=47).contains(s));
            if backtracking {
                match exec(c, b.saturating_mul(BIG)) {
                    Outcome::Budget { hot, .. } => (Res::Hang(hot_sig(&hot)), b * BIG),
                    Outcome::Panic { sig, .. } => (Res::Panic(sig), b),
                    _ => (Res::Superlinear, b * RETRY),
                }
            } else {
                // not backtracking: it may still be a legitimate long run - a rule list that makes the word many times longer before
                // later groups work on it, or a refusal to go on (NoProgress) that takes a number of passes proportional to the word.
                // A few such cases per worker get BIG x the budget as well: returning = slow (counted, not a violation), exhausted = hang.
                // (Only a few: a real runaway grows the word on every pass and 64 budgets of that are expensive.)
                // The budget is doubled up to BIG x as long as each attempt is cheap in wall-clock time (a real runaway grows the word
                // on every pass and gets slow quickly; the legitimate long runs take a few hundredths of a second; the limit per attempt is three seconds). The clock only decides
                // whether MORE steps are granted - the verdict `hang` always rests on an exhausted step budget.
                let _ = BIG_TRIES.with(|t| t.get());
                let mut factor = RETRY * 2; let mut last_hot = hot;
                loop {
                    if factor > BIG { break (Res::Hang(hot_sig(&last_hot)), b * BIG) }
                    let t0 = std::time::Instant::now();
                    match exec(c, b.saturating_mul(factor)) {
                        Outcome::Budget { hot, .. } => { last_hot = hot; if t0.elapsed().as_millis() > 3000 { break (Res::Hang(hot_sig(&last_hot)), b * factor) } factor *= 2; }
                        Outcome::Panic { sig, .. } => break (Res::Panic(sig), b),
                        _ => break (Res::Slow64, b * RETRY),
                    }
                }
            }
        }
        o => match classify(o) { Some(Res::Panic(s)) => (Res::Panic(s), b), Some(Res::Growth(n)) => (Res::Growth(n), b), _ => (Res::Slow, b) },
    }
}

fn record(rep: &mut Report, c: &Case, res: Res, ticks: u64) {
    rep.eval(1);
    rep.obs(&format!("family_{}", c.family), 1);
    let b = c.budget();
    rep.obs_max("max_ticks_per_budget_x1000", ticks.saturating_mul(1000) / b.max(1));
    let past_parsing = match &res { Res::Ok { .. } => true, Res::Err(k) => k.starts_with("RuleRun") || k.starts_with("WordRun") || k.starts_with("AliasRun"), _ => true };
    if past_parsing { rep.nontrivial(hash64(&(&c.groups, &c.words, &c.into, &c.from, c.entry))); }
    match res {
        Res::Ok { changed } => { rep.obs("returned_ok", 1); if changed { rep.obs("returned_ok_changed", 1); } if rep.samples.len() < 6 && changed { let cj = c.to_json(); rep.sample(|| cj); } }
        Res::Err(k) => { rep.obs("returned_err", 1); rep.obs(&format!("err_{}", k.split("::").next().unwrap_or("?")), 1); }
        Res::Slow => rep.obs("slow_but_returned_within_retry_budget", 1),
        Res::Slow64 => { rep.obs("slow_but_returned_within_64x_budget", 1); if rep.notes.len() < 4 { rep.notes.push(format!("returned only within 64x the budget (word grown by the rules, or a no-progress refusal): {}", c.to_json())); } }
        Res::Panic(sig) => { let full = format!("panic {sig}"); if !rep.violations.contains_key(&full) { let cj = minimise(c, &full).to_json(); rep.violation(full, || json!({"case": cj, "expected": "Ok or Err", "observed": "unwinding panic"})); } else { rep.violation(full, || Value::Null); } }
        Res::Hang(sig) => { rep.obs("hangs", 1); let full = format!("hang {sig}"); if !rep.violations.contains_key(&full) { let cj = minimise(c, &full).to_json(); rep.violation(full, || json!({"case": cj, "expected": "return within the step budget", "observed": format!("budget {} exhausted repeatedly", b)})); } else { rep.violation(full, || Value::Null); } }
        Res::Superlinear => { let full = "superlinear backtracking (ellipsis/optional): returned only within 64x the step budget".to_string(); if !rep.violations.contains_key(&full) { let cj = minimise(c, &full).to_json(); rep.violation(full, || json!({"case": cj, "expected": "return within a budget proportional to |word| x |rule|", "observed": "needed more than 2x and less than 64x the budget"})); } else { rep.violation(full, || Value::Null); } }
        Res::Growth(n) => { let cj = c.to_json(); rep.violation("growth".into(), || json!({"case": cj, "expected": "output size bounded by 64 x |words| x |rules|", "observed": n})); }
    }
}

/// in-process exploration of case indices [start, end) with stride; publishes the current index to `cur` if given
fn worker(seed: u64, start: u64, end: u64, cur: Option<&mut std::fs::File>, corpus: &Corpus) -> Report {
    let mut rep = Report::new(RULE);
    let mut cur = cur;
    let mut dump = std::env::var("VERIF_DUMP").ok().and_then(|p| std::fs::OpenOptions::new().create(true).append(true).open(p).ok());
    for idx in start..end {
        if let Some(f) = cur.as_mut() { let _ = f.seek(SeekFrom::Start(0)); let _ = f.write_all(&idx.to_le_bytes()); }
        let c = gen_case(seed, idx, corpus);
        if let Some(d) = dump.as_mut() {
            // differential aid: one line per case with the outcome of the public call
            let o = exec(&c, c.budget() * RETRY);
            let line = match o { Outcome::Done(Ok((v, _))) => format!("{idx}\tok\t{:016x}\n", hash64(&v)), Outcome::Done(Err(e)) => format!("{idx}\terr\t{}\n", err_kind(&e)), Outcome::Panic { .. } => format!("{idx}\tpanic\n"), Outcome::Budget { .. } => format!("{idx}\tbudget\n") };
            let _ = d.write_all(line.as_bytes());
            continue;
        }
        let (res, ticks) = run_case(&c);
        record(&mut rep, &c, res, ticks);
        // every hang costs two exhausted budgets; once a slice has seen a dozen the verdict is settled and the rest is skipped
        if rep.observed.get("hangs").cloned().unwrap_or(0) >= 12 { rep.notes.push("a slice stopped early after 12 hangs".into()); rep.obs("cases_skipped_after_too_many_hangs", end - idx - 1); break }
    }
    rep
}

/// child process entry: `vharness C02 explore --child START END CURFILE --out FILE`
pub fn child(ctx: &Ctx) -> Option<Report> {
    let i = ctx.args.iter().position(|a| a == "--child")?;
    let start: u64 = ctx.args[i + 1].parse().ok()?; let end: u64 = ctx.args[i + 2].parse().ok()?;
    let mut f = std::fs::OpenOptions::new().create(true).write(true).open(&ctx.args[i + 3]).ok()?;
    // a small address-space limit so that runaway allocation kills the child, not the machine
    let corpus = Corpus::load(&ctx.repo);
    Some(worker(ctx.seed, start, end, Some(&mut f), &corpus))
}

pub fn explore(ctx: &Ctx, shard: usize, n: usize) -> Report {
    if let Some(s) = show(ctx) { if shard == 0 { println!("{s}"); } return Report::default() }
    if ctx.args.iter().any(|a| a == "--child") { return if shard == 0 { child(ctx).unwrap_or_default() } else { Report::default() } }
    if ctx.args.iter().any(|a| a == "--miri-slice") {
        // under Miri: no child processes; a small in-process slice aimed at the `unsafe` code (named escapes -> char::from_u32_unchecked,
        // place getters -> unwrap_unchecked) plus the first cases of the ordinary stream
        if shard != 0 { return Report::default() }
        let corpus = Corpus::load(&ctx.repo);
        let mut rep = worker(ctx.seed, 0, 40, None, &corpus);
        let names = ["Space", "Grave", "Acute", "Circumflex", "Tilde", "Macron", "OverLine", "Breve", "OverDot", "Umlaut", "OverHook", "OverRing", "DoubleAcute", "Caron", "DoubleGrave", "InvBreve", "Horn", "UnderDot", "UnderUmlaut", "UnderRing", "UnderComma", "Cedilla", "Ogonek", "over dot", "dotabove", "RING", "nonsense", ""];
        for n in names {
            let c = Case { groups: vec![vec!["a > e / _#".into()]], words: vec!["pa.ta".into(), "ˈsaː".into()], into: vec![format!("+@{{{n}}} > [+nasal]")], from: vec![format!("V:[+stress] > +@{{{n}}}"), format!("t > @{{{n}}}x\\u{{00FE}}")], entry: 0, family: "named-escape" };
            let (res, ticks) = run_case(&c); record(&mut rep, &c, res, ticks);
        }
        return rep;
    }
    // parent: each of the n threads supervises one child process over its slice of the index space
    let total = ctx.pick(400_000, 30_000_000);
    let per = total / n as u64;
    let (mut start, end) = (shard as u64 * per, (shard as u64 + 1) * per);
    let exe = std::env::current_exe().expect("current exe");
    let dir = std::env::temp_dir().join(format!("vh-c02-{}-{}", std::process::id(), shard));
    let _ = std::fs::create_dir_all(&dir);
    let mut rep = Report::new(RULE);
    let corpus = Corpus::load(&ctx.repo);
    if shard == 0 { rep.obs("corpus_rules", corpus.rules.len() as u64); rep.obs("corpus_words", corpus.words.len() as u64); }
    let mut restarts = 0;
    while start < end {
        let cur = dir.join("cur"); let out = dir.join("out.json");
        let _ = std::fs::remove_file(&out); let _ = std::fs::write(&cur, u64::MAX.to_le_bytes());
        let chunk_end = (start + 50_000).min(end);
        let mut child = match std::process::Command::new(&exe)
            .args(["C02", "explore", "--tier", if ctx.quick() { "quick" } else { "thorough" }, "--seed", &ctx.seed.to_string(), "--threads", "1", "--child", &start.to_string(), &chunk_end.to_string(), cur.to_str().unwrap(), "--out", out.to_str().unwrap()])
            .stdin(std::process::Stdio::null()).stdout(std::process::Stdio::null()).stderr(std::process::Stdio::null()).spawn() {
            Ok(c) => c, Err(e) => { rep.notes.push(format!("cannot spawn worker: {e}")); rep.obs("worker_died", 1); break }
        };
        // wall-clock is only a watchdog: a case on which the published index does not move for WATCHDOG_S seconds is
        // killed and recorded as inconclusive (never as a violation)
        let mut last_seen = u64::MAX; let mut last_change = std::time::Instant::now(); let mut watchdog_fired = false;
        let st = loop {
            match child.try_wait() {
                Ok(Some(s)) => break Ok(s),
                Ok(None) => {
                    let b = std::fs::read(&cur).unwrap_or_default();
                    let idx = if b.len() >= 8 { u64::from_le_bytes(b[..8].try_into().unwrap()) } else { u64::MAX };
                    if idx != last_seen { last_seen = idx; last_change = std::time::Instant::now(); }
                    if last_change.elapsed().as_secs() > WATCHDOG_S { let _ = child.kill(); let _ = child.wait(); watchdog_fired = true; break Err(std::io::Error::other("watchdog")) }
                    std::thread::sleep(std::time::Duration::from_millis(20));
                }
                Err(e) => break Err(e),
            }
        };
        if watchdog_fired {
            let c = gen_case(ctx.seed, last_seen, &corpus);
            // the step budget only sees loops that tick. A case that stood still for the whole watchdog period is run once more,
            // alone, in a fresh process: if that one does not come back within a minute either (an ordinary case takes well under a
            // millisecond), it is an endless loop outside the ticked sites - a violation. If it comes back, the machine was busy.
            let alone = if last_seen != u64::MAX {
                let out2 = dir.join("alone.json"); let cur2 = dir.join("cur2");
                let ch = std::process::Command::new(&exe).args(["C02", "explore", "--tier", if ctx.quick() { "quick" } else { "thorough" }, "--seed", &ctx.seed.to_string(), "--threads", "1", "--child", &last_seen.to_string(), &(last_seen + 1).to_string(), cur2.to_str().unwrap(), "--out", out2.to_str().unwrap()])
                    .stdin(std::process::Stdio::null()).stdout(std::process::Stdio::null()).stderr(std::process::Stdio::null()).spawn();
                match ch { Ok(mut ch) => { let t0 = std::time::Instant::now(); loop { match ch.try_wait() { Ok(Some(_)) => break Some(true), Ok(None) => { if t0.elapsed().as_secs() > 60 { let _ = ch.kill(); let _ = ch.wait(); break Some(false) } std::thread::sleep(std::time::Duration::from_millis(50)); } Err(_) => break None } } } Err(_) => None }
            } else { None };
            if alone == Some(false) {
                rep.eval(1);
                let cj = c.to_json();
                rep.violation("hang without ticks: no return within the wall-clock watchdog in two separate processes".into(), || json!({"case": cj, "expected": "return", "observed": format!("no progress for {WATCHDOG_S} s, then again for 60 s when run alone")}));
                // every such case costs three minutes: the verdict is settled, the rest of this slice is skipped
                rep.notes.push("a slice stopped after a hang outside the ticked loops".into());
                rep.obs("cases_skipped_after_a_hang_without_ticks", end.saturating_sub(last_seen + 1));
                break;
            } else {
                rep.obs("watchdog_cases_inconclusive", 1);
                rep.notes.push(format!("watchdog: no progress for {WATCHDOG_S}s on case {last_seen}: {}", c.to_json()));
            }
            if last_seen == u64::MAX || last_seen < start || last_seen >= chunk_end { break }
            let pre = worker(ctx.seed, start, last_seen, None, &corpus); rep.merge(pre);
            rep.obs("cases_assigned", last_seen + 1 - start);
            start = last_seen + 1; restarts += 1;
            if restarts > 200 { break }
            continue;
        }
        let ok = matches!(&st, Ok(s) if s.success()) && out.exists();
        if ok {
            if let Ok(v) = serde_json::from_str::<Value>(&std::fs::read_to_string(&out).unwrap_or_default()) { absorb(&mut rep, &v); }
            rep.obs("cases_assigned", chunk_end - start);
            start = chunk_end;
        } else {
            // the child died inside a case: identify it, record it, restart after it
            let b = std::fs::read(&cur).unwrap_or_default();
            let idx = if b.len() >= 8 { u64::from_le_bytes(b[..8].try_into().unwrap()) } else { u64::MAX };
            if idx == u64::MAX || idx < start || idx >= chunk_end { rep.notes.push(format!("child died outside a case ({st:?})")); rep.obs("worker_died", 1); break }
            let c = gen_case(ctx.seed, idx, &corpus);
            let how = match &st { Ok(s) => format!("{s}"), Err(e) => format!("{e}") };
            rep.eval(1); rep.obs("cases_killed_the_process", 1); rep.obs("cases_assigned", idx + 1 - start);
            // completed cases of this chunk before the kill are re-run in-process (they are known not to kill)
            let pre = worker(ctx.seed, start, idx, None, &corpus); rep.merge(pre);
            let cj = c.to_json();
            rep.violation(format!("abort {}", abort_class(&c)), || json!({"case": cj, "expected": "Ok or Err", "observed": format!("worker process died: {how}")}));
            start = idx + 1; restarts += 1;
            if restarts > 200 { rep.notes.push("more than 200 process deaths in one shard; stopping".into()); break }
        }
    }
    let _ = std::fs::remove_dir_all(&dir);
    rep
}

fn abort_class(c: &Case) -> String { format!("family={} entry={} first-rule-shape={}", c.family, c.entry, c.groups.iter().flatten().next().map(|r| shape_of(r)).unwrap_or_default()) }
/// coarse shape of a rule: special characters kept, everything else collapsed
pub fn shape_of(r: &str) -> String {
    let mut s = String::new(); let mut last = ' ';
    for ch in r.chars() { let k = if "[]{}()⟨⟩<>:=_>,#$%&*∅/|;.…+-".contains(ch) { ch } else if ch.is_ascii_digit() { '9' } else if ch.is_whitespace() { continue } else { 'x' }; if k == 'x' && last == 'x' { continue } if k == '9' && last == '9' { continue } s.push(k); last = k; }
    s.chars().take(40).collect()
}

fn absorb(rep: &mut Report, v: &Value) {
    rep.evaluations += ju64(v, "evaluations");
    // distinct hashes are not shipped between processes: the child's count is added (slices are disjoint index ranges;
    // a duplicate case in two slices would be counted twice, which the generator makes negligible but not impossible)
    rep.nontrivial_exact += ju64(v, "distinct_nontrivial");
    if let Some(o) = v["observed"].as_object() { for (k, x) in o { let x = x.as_u64().unwrap_or(0); if k.starts_with("max_") { rep.obs_max(k, x) } else { rep.obs(k, x) } } }
    if let Some(a) = v["samples"].as_array() { for s in a { let s = s.clone(); rep.sample(|| s); } }
    if let Some(a) = v["violations"].as_array() { for x in a { let (sig, cnt, d) = (jstr(x, "signature"), ju64(x, "count"), x["detail"].clone()); rep.violation(sig.clone(), || d); if cnt > 1 { if let Some(e) = rep.violations.get_mut(&sig) { e.0 += cnt - 1; } } } }
    rep.obs("cases_completed", ju64(v, "evaluations"));
}

pub fn replay(_ctx: &Ctx, case: &Value) -> Report {
    let mut rep = Report::new(RULE);
    let c = Case::from_json(case);
    let (res, ticks) = run_case(&c);
    record(&mut rep, &c, res, ticks);
    rep
}

/// debugging aid: `vharness C02 explore --show IDX` prints the case with that index
pub fn show(ctx: &Ctx) -> Option<String> {
    let i = ctx.args.iter().position(|a| a == "--show")?;
    let idx: u64 = ctx.args[i + 1].parse().ok()?;
    let corpus = Corpus::load(&ctx.repo);
    Some(gen_case(ctx.seed, idx, &corpus).to_json().to_string())
}

fn sig_of(res: &Res) -> Option<String> {
    match res { Res::Panic(s) => Some(format!("panic {s}")), Res::Hang(s) => Some(format!("hang {s}")), Res::Superlinear => Some("superlinear backtracking (ellipsis/optional): returned only within 64x the step budget".into()), Res::Growth(_) => Some("growth".into()), _ => None }
}

/// the smallest sub-case (one rule, one word) that still fails with the same signature, else the case itself
pub fn minimise(c: &Case, sig: &str) -> Case {
    let rules: Vec<String> = c.groups.iter().flatten().cloned().collect();
    let words: Vec<String> = c.words.iter().flat_map(|w| w.split(' ').map(|x| x.to_string()).collect::<Vec<_>>()).collect();
    let same = |cand: &Case| sig_of(&run_case(cand).0).as_deref() == Some(sig);
    for (ri, r) in rules.iter().enumerate() { for w in &words {
        if ri > 6 { break }
        let cand = Case { groups: vec![vec![r.clone()]], words: vec![w.clone()], into: c.into.clone(), from: c.from.clone(), entry: c.entry, family: c.family };
        if same(&cand) {
            let bare = Case { into: vec![], from: vec![], ..cand.clone() };
            return if same(&bare) { bare } else { cand };
        }
    } }
    for r in rules.iter().take(6) {
        let cand = Case { groups: vec![vec![r.clone()]], words: c.words.clone(), into: c.into.clone(), from: c.from.clone(), entry: c.entry, family: c.family };
        if same(&cand) { return cand }
    }
    c.clone()
}
