//! C15 – aliases change notation, never the sound changes.
use crate::c04::{m_match, to_m, F};
use crate::gen::*;
use crate::{drive, report::Report, run::*, sw, util::*, Ctx};
use asca::verif::Word;
use serde_json::{json, Value};

const RULE: &str = "words assembled from a segment list (so that encoding is exact), rules from the full-grammar generator, and (A) romaniser sets of 1-5 lines in random order: one or two plain segments or a one-feature matrix > a fresh non-IPA string, `+`string (only judged on base phones), `*`, and optionally `$ > *` / `$ > string`: the printed result must equal a reference printer applied to the STRUCTURAL result of the run without aliases (first matching line wins, a matched sequence is replaced as a whole, a long segment keeps its length mark, boundaries and stress marks are replaced by the `$` line); (B) deromaniser sets mapping fresh strings to plain segments or `X:[+long]`: run(R, encode(w), into=D) must equal run(R, w). Non-trivial = an alias line matched (printed form differs from the default rendering / the encoded word differs from the word) and the rule changed the word; distinct = distinct (rules, aliases, word).";

const FRESH: [&str; 12] = ["Ж", "Ю", "あ", "か", "ξ", "ψψ", "ß", "Ѣ", "ш", "ДЖ", "ん", "ω"];

/// `expand`: for a sequence deromaniser `S > X:[+long]Y`, S stands in `segs` as one item and expands to the plain text `XːY`
pub struct Case { pub kind: String, pub rule: String, pub segs: Vec<Vec<String>>, pub stress: Vec<u8>, pub tones: Vec<u16>, pub aliases: Vec<String>, pub expand: Vec<(String, String)> }
impl Case {
    fn json(&self) -> Value { json!({"kind": self.kind, "rule": self.rule, "segs": self.segs, "stress": self.stress, "tones": self.tones, "aliases": self.aliases, "expand": self.expand.iter().map(|(a, b)| json!([a, b])).collect::<Vec<_>>()}) }
    fn text(&self, enc: &dyn Fn(&str, bool) -> String) -> String {
        let mut s = String::new();
        for (i, sy) in self.segs.iter().enumerate() {
            match self.stress[i] { 1 => s.push('ˈ'), 2 => s.push('ˌ'), _ => if i > 0 { s.push('.') } }
            let mut j = 0;
            while j < sy.len() { let long = j + 1 < sy.len() && sy[j + 1] == "ː"; s += &enc(&sy[j], long); j += if long { 2 } else { 1 }; }
            if self.tones[i] != 0 { s += &self.tones[i].to_string(); }
        }
        s
    }
}

/// escapes the manual documents for replacement strings, as written and as they come out (named escapes are case- and
/// space-insensitive; `\\u{..}` takes hex of either case; a backslash makes a reserved character literal)
const ESCAPES: [(&str, &str); 16] = [("@{acute}", "\u{0301}"), ("@{Macron}", "\u{0304}"), ("@{under dot}", "\u{0323}"), ("@{CARON}", "\u{030C}"), ("@{Circumflex}", "\u{0302}"), ("@{ogonek}", "\u{0328}"),
    ("\\u{00FE}", "þ"), ("\\u{fe}", "þ"), ("\\,", ","), ("\\-", "-"), ("\\+", "+"), ("\\*", "*"), ("\\>", ">"), ("\\=", "="), ("\\$", "$"), ("\\@", "@")];
fn decode_escapes(t: &str) -> String { let mut o = t.to_string(); for (a, b) in ESCAPES { o = o.replace(a, b) } o }

fn gen(r: &mut Rng) -> Case {
    let ns = r.range(1, 4);
    let pool: Vec<String> = (0..5).map(|_| rand_seg(r)).collect();
    let mut segs = Vec::new(); let mut stress = Vec::new(); let mut tones = Vec::new();
    for i in 0..ns {
        let n = r.range(1, 4); let mut sy: Vec<String> = Vec::new();
        for _ in 0..n { let s = if r.chance(2, 3) { r.pick(&pool).clone() } else { rand_seg(r) }; if sy.last() == Some(&s) { continue } sy.push(s); if r.chance(1, 7) { sy.push("ː".into()) } }
        segs.push(sy); stress.push(if i == 0 && r.chance(1, 2) { 0 } else { [0, 0, 1, 2][r.below(4)] }); tones.push([0u16, 0, 0, 5, 51][r.below(5)]);
    }
    let rule = plain(&rand_rule(r, &RuleCfg { max_side: 2, ..RuleCfg::default() }));
    let mut aliases = Vec::new();
    let mut expand: Vec<(String, String)> = Vec::new();
    let kind = if r.chance(3, 5) { "romaniser" } else { "deromaniser" };
    let mut fresh: Vec<&str> = FRESH.to_vec(); r.shuffle(&mut fresh);
    if kind == "romaniser" {
        for k in 0..r.range(1, 5) {
            // a third of the replacement strings end in an escape
            let fx = if r.chance(1, 3) { format!("{}{}", fresh[k], r.pick(&ESCAPES).0) } else { fresh[k].to_string() };
            let f = fx.as_str();
            aliases.push(match r.below(9) {
                0 | 1 => format!("{} > {f}", r.pick(&pool)),
                2 => format!("{}{} > {f}", r.pick(&pool), r.pick(&pool)),
                3 => format!("{} > +{f}", r.pick(&pool)),
                // a suffixing romaniser over a sequence (seed C15-e): every matched segment is printed, then the suffix
                8 => format!("{}{} > +{f}", r.pick(&pool), r.pick(&pool)),
                4 => format!("[{}{}] > {f}", if r.chance(1, 2) { '+' } else { '-' }, F[r.below(26)].0),
                5 => format!("{} > *", r.pick(&pool)),
                6 => format!("{}, {} > {f}, {}", r.pick(&pool), r.pick(&pool), fresh[(k + 5) % 12]),
                _ => format!("{} > {f}", rand_seg(r)),
            });
        }
        if r.chance(1, 3) { aliases.push(if r.chance(2, 3) { "$ > *".to_string() } else { "$ > -".to_string().replace('-', "·") }); r.shuffle(&mut aliases); }
    } else {
        for k in 0..r.range(1, 3) { let f = fresh[k]; let t = r.pick(&pool).clone(); aliases.push(if r.chance(1, 4) { format!("{f} > {t}:[+long]") } else { format!("{f} > {t}") }); }
        // a deromaniser that stands for a sequence, some members lengthened: `S > X:[+long]Y`. S is typed into the word as one item;
        // the neighbours are chosen so that the expansion neither merges with them nor contains a doubled segment
        if r.chance(1, 2) {
            let f = fresh[4];
            let n = r.range(2, 3);
            let mut xs: Vec<String> = Vec::new();
            while xs.len() < n { let t = rand_seg(r); if xs.last() != Some(&t) { xs.push(t) } }
            let longs: Vec<u8> = (0..n).map(|_| [0u8, 0, 0, 1, 1, 2][r.below(6)]).collect();
            let rhs: String = xs.iter().zip(&longs).map(|(x, l)| match l { 1 => format!("{x}:[+long]"), 2 => format!("{x}:[+long, +overlong]"), _ => x.clone() }).collect();
            let plain: String = xs.iter().zip(&longs).map(|(x, l)| format!("{x}{}", "ː".repeat(*l as usize))).collect();
            let si = r.below(segs.len());
            // positions between items (never between a segment and its length mark)
            let slots: Vec<usize> = (0..=segs[si].len()).filter(|&j| j == segs[si].len() || segs[si][j] != "ː").collect();
            let j = *r.pick(&slots);
            let left = (0..j).rev().map(|q| &segs[si][q]).find(|x| *x != "ː");
            let right = segs[si].get(j);
            if left != Some(&xs[0]) && right != Some(&xs[n - 1]) {
                segs[si].insert(j, f.to_string());
                aliases.push(format!("{f} > {rhs}"));
                expand.push((f.to_string(), plain));
                if r.chance(1, 2) { r.shuffle(&mut aliases) }
            }
        }
    }
    Case { kind: kind.to_string(), rule, segs, stress, tones, aliases, expand }
}

// ---- reference printer for the simple romaniser class
enum AIn { Segs(Vec<asca::Segment>), Feat(usize, bool) }
struct ALine { input: AIn, out: String, plus: bool }
fn parse_aliases(lines: &[String]) -> Option<(Vec<ALine>, Option<String>)> {
    let mut v = Vec::new(); let mut bound = None;
    for l in lines {
        let (lhs, rhs) = l.split_once(" > ")?;
        let ins: Vec<&str> = lhs.split(", ").collect(); let outs: Vec<&str> = rhs.split(", ").collect();
        for (k, i) in ins.iter().enumerate() {
            let o: &str = if outs.len() == 1 { outs[0] } else { outs.get(k)? };
            if *i == "$" { bound = Some(if o == "*" { String::new() } else { o.to_string() }); continue }
            let (out, plus) = if o == "*" { (String::new(), false) } else if let Some(x) = o.strip_prefix('+') { (decode_escapes(x), true) } else { (decode_escapes(o), false) };
            let input = if let Some(b) = i.strip_prefix('[') { let b = b.strip_suffix(']')?; AIn::Feat(F.iter().position(|f| f.0 == &b[1..])?, b.starts_with('+')) }
                        else { let w = parse_word(i).ok()?; AIn::Segs(w.syllables.iter().flat_map(|s| s.segments.iter().cloned()).collect()) };
            v.push(ALine { input, out, plus });
        }
    }
    Some((v, bound))
}
/// Some(printed) or None when the case leaves the class the reference covers (a `+` line hitting a non-base phone)
fn ref_print(w: &Word, lines: &[ALine], bound: &Option<String>, bases: &std::collections::HashSet<crate::sw::SegKey>) -> Option<String> {
    let mut buf = String::new();
    for (i, sy) in w.syllables.iter().enumerate() {
        match sw::stress_code(sy.stress) { 1 => buf.push('ˈ'), 2 => buf.push('ˌ'), _ => if i > 0 { buf.push('.') } }
        let mut j = 0;
        'seg: while j < sy.segments.len() {
            if j != 0 && sy.segments[j] == sy.segments[j - 1] { buf.push('ː'); j += 1; continue }
            for a in lines {
                let k = match &a.input {
                    AIn::Segs(v) => if j + v.len() <= sy.segments.len() && v.iter().enumerate().all(|(d, s)| sy.segments[j + d] == *s) { v.len() } else { 0 },
                    AIn::Feat(f, p) => if m_match(&to_m(&sy.segments[j]), F[*f].1, F[*f].2, *p) { 1 } else { 0 },
                };
                if k == 0 { continue }
                if a.plus { for d in 0..k { if !bases.contains(&sw::seg_key(&sy.segments[j + d])) { return None } buf += &sy.segments[j + d].get_as_grapheme()?; } }
                buf += &a.out;
                j += k;
                continue 'seg;
            }
            buf += &sy.segments[j].get_as_grapheme().unwrap_or("\u{fffd}".into());
            j += 1;
        }
        if sy.tone != 0 { buf += &sy.tone.to_string(); }
    }
    if let Some(b) = bound {
        if !b.is_empty() && (buf.starts_with('ˈ') || buf.starts_with('ˌ')) { buf = buf.chars().skip(1).collect(); }
        buf = buf.replace(['.', 'ˈ', 'ˌ'], b);
    }
    Some(buf)
}

pub fn judge(rep: &mut Report, c: &Case, bases: &std::collections::HashSet<crate::sw::SegKey>) {
    rep.eval(1);
    let word = c.text(&|s, long| if let Some((_, x)) = c.expand.iter().find(|(f, _)| f == s) { x.clone() } else if long { format!("{s}ː") } else { s.to_string() });
    let g = one_group(&[c.rule.clone()]);
    if compile1(&c.rule).is_err() { rep.obs("rule_rejected", 1); return }
    let plain_run = match run_pub(&g, &[word.clone()], &[], &[]) { Ok(v) => v[0].clone(), Err(Applied::Abort(s)) => { rep.abort(s, || c.json()); return } Err(_) => { rep.obs("run_err", 1); return } };
    if c.kind == "romaniser" {
        let with = match run_pub(&g, &[word.clone()], &[], &c.aliases) { Ok(v) => v[0].clone(), Err(Applied::Abort(s)) => { rep.abort(s, || c.json()); return } Err(e) => { let t = e.tag(); if t.contains("AliasSyn") || t.contains("AliasRun") { rep.obs("alias_rejected", 1); if t.contains("AliasSyn") { rep.violation("romaniser-in-documented-form-rejected".into(), || json!({"case": c.json(), "observed": t})); } } else { rep.violation("run-fails-only-with-romanisers".into(), || json!({"case": c.json(), "observed": t})); } return } };
        let Some((lines, bound)) = parse_aliases(&c.aliases) else { rep.obs("alias_outside_reference", 1); return };
        // structural result WITHOUT aliases
        let Ok(w) = parse_word(&word) else { return };
        let Ok(pr) = compile1(&c.rule) else { return };
        let Applied::Ok(res) = apply(&pr, &w) else { return };
        let Some(exp) = ref_print(&res, &lines, &bound, bases) else { rep.obs("plus_on_non_base_phone_not_judged", 1); return };
        if exp.contains('\u{fffd}') { return }
        if with != exp { rep.violation(format!("printed-form{}", if c.aliases.iter().any(|a| a.starts_with('$')) { ":with-boundary-line" } else { "" }), || json!({"case": c.json(), "word": word, "default_rendering": plain_run, "expected": exp, "observed": with})); return }
        if with != plain_run && res != w { rep.nontrivial(hash64(&(&c.rule, &c.aliases, &word))); if rep.samples.len() < 5 { let v = json!({"rule": c.rule, "word": word, "romanisers": c.aliases, "default": plain_run, "printed": with}); rep.sample(|| v); } }
    } else {
        // deromanisers `S > X` / `S > X:[+long]`: typing S must behave as typing X (resp. Xː)
        let mut table: Vec<(String, String, bool)> = Vec::new();
        for l in &c.aliases { if let Some((s, x)) = l.split_once(" > ") { let long = x.ends_with(":[+long]"); table.push((s.to_string(), x.trim_end_matches(":[+long]").to_string(), long)); } }
        let enc = c.text(&|s, long| { if c.expand.iter().any(|(f, _)| f == s) { return s.to_string() } for (f, x, l) in &table { if x == s && *l == long { return f.clone() } } if long { format!("{s}ː") } else { s.to_string() } });
        let with = match run_pub(&g, &[enc.clone()], &c.aliases, &[]) { Ok(v) => v[0].clone(), Err(Applied::Abort(s)) => { rep.abort(s, || c.json()); return } Err(e) => { let t = e.tag(); if t.contains("AliasSyn") || t.contains("AliasRun") { rep.obs("alias_rejected", 1); if t.contains("AliasSyn") { rep.violation("deromaniser-in-documented-form-rejected".into(), || json!({"case": c.json(), "observed": t})); } } else { rep.violation("encoded-word-fails".into(), || json!({"case": c.json(), "word": word, "encoded": enc, "observed": t})); } return } };
        if with != plain_run { rep.violation("deromanised-run-differs".into(), || json!({"case": c.json(), "word": word, "encoded": enc, "expected": plain_run, "observed": with})); return }
        if enc != word && plain_run != word { rep.nontrivial(hash64(&(&c.rule, &c.aliases, &word))); if rep.samples.len() < 8 { let v = json!({"rule": c.rule, "word": word, "encoded": enc, "deromanisers": c.aliases, "result": with}); rep.sample(|| v); } }
    }
}

pub fn explore(ctx: &Ctx, shard: usize, n: usize) -> Report {
    let bases: std::collections::HashSet<crate::sw::SegKey> = asca::verif::cardinals().iter().map(|(_, s)| sw::seg_key(s)).collect();
    drive::cases(ctx, shard, n, RULE, 0x15, 100_000, 30_000_000, |r, rep, _| { let c = gen(r); judge(rep, &c, &bases); })
}
pub fn replay(_ctx: &Ctx, v: &Value) -> Report {
    let mut rep = Report::new(RULE);
    let bases: std::collections::HashSet<crate::sw::SegKey> = asca::verif::cardinals().iter().map(|(_, s)| sw::seg_key(s)).collect();
    let segs = v["segs"].as_array().map(|a| a.iter().map(|s| s.as_array().map(|x| x.iter().map(|t| t.as_str().unwrap_or("").to_string()).collect()).unwrap_or_default()).collect()).unwrap_or_default();
    let c = Case { kind: jstr(v, "kind"), rule: jstr(v, "rule"), segs, stress: v["stress"].as_array().map(|a| a.iter().map(|x| x.as_u64().unwrap_or(0) as u8).collect()).unwrap_or_default(), tones: v["tones"].as_array().map(|a| a.iter().map(|x| x.as_u64().unwrap_or(0) as u16).collect()).unwrap_or_default(), aliases: jstrs(v, "aliases"), expand: v["expand"].as_array().map(|a| a.iter().map(|p| (p[0].as_str().unwrap_or("").to_string(), p[1].as_str().unwrap_or("").to_string())).collect()).unwrap_or_default() };
    judge(&mut rep, &c, &bases);
    rep
}
