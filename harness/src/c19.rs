//! C19 – the command line gives the library's answers and converts files losslessly.
use crate::cli::*;
use crate::{drive, report::Report, run::*, util::*, Ctx};
use serde_json::{json, Value};

const RULE: &str = "generated projects (1-6 rule groups with names, 0-4 rules, 0-3 description lines, random indentation, blank lines between rules, LF or CRLF; 1-30 word lines with trailing comments, comment-only and blank lines; optional alias file with both sections) serialised per doc-cli.md into a fresh directory: (1) `asca run -r -w [-l] -o` must write exactly asca::run(model) joined by newlines and print the same `before => after` pairs; (2) `asca run -j` on the model as JSON must write the same; (3) `asca conv asca` must produce the model as JSON; (4) on round-trip-safe projects `asca conv json` (explicit -w/-r/-a paths, and default paths) followed by `asca conv asca` must reproduce the JSON. Every invocation runs with stdin closed, a step budget and a watchdog. Non-trivial = the run changed at least one word and wrote a file; distinct = distinct projects.";

thread_local! { static REGEN: std::cell::Cell<Option<(u64, u64)>> = const { std::cell::Cell::new(None) }; }

fn fail(rep: &mut Report, sig: &str, p: &Project, files: &Value, detail: Value) {
    let pj = p.json();
    // (seed, case index) regenerates the project *and* every serialisation / invocation choice made for it
    let regen = REGEN.with(|c| c.get()).map(|(s, i)| json!({"seed": s, "index": i})).unwrap_or(Value::Null);
    rep.violation(sig.to_string(), || json!({"case": {"project": pj, "files": files, "regen": regen}, "detail": detail}));
}

pub fn judge(rep: &mut Report, r: &mut Rng, dir: &std::path::Path, p: &Project, safe: bool) {
    rep.eval(1);
    let (rs, ws, al) = (p.rsca(r), p.wsca(r), p.alias(r));
    let files = json!({"r.rsca": rs, "w.wsca": ws, "a.alias": al});
    let has_alias = !p.into.is_empty() || !p.from.is_empty();
    std::fs::write(dir.join("r.rsca"), &rs).ok(); std::fs::write(dir.join("w.wsca"), &ws).ok();
    if has_alias { std::fs::write(dir.join("a.alias"), &al).ok(); }
    let words = p.word_list();
    let expected = run_pub(&p.groups, &words, &p.into, &p.from);
    // a panic or an exhausted step budget inside the library is C02's finding; the binary can only do the same
    if let Err(Applied::Abort(sig)) = &expected { let pj = p.json(); rep.abort(sig.clone(), || json!({"project": pj})); return }
    // (1) run
    // short or long flags; the output named as a file or as a directory (asca then writes out.wsca into it)
    let long = r.chance(1, 3); let to_dir = r.chance(1, 4);
    if to_dir { std::fs::create_dir_all(dir.join("outd")).ok(); }
    let out_arg = if to_dir { "outd" } else { "out.wsca" };
    let out_path = if to_dir { dir.join("outd").join("out.wsca") } else { dir.join("out.wsca") };
    let mut args = if long { vec!["run", "--rules", "r.rsca", "--words", "w.wsca", "--output", out_arg] } else { vec!["run", "-r", "r.rsca", "-w", "w.wsca", "-o", out_arg] };
    if has_alias { args.extend([if long { "--alias" } else { "-l" }, "a.alias"]); }
    let ran = run_asca(dir, &args);
    if ran.timed_out { rep.obs("watchdog_inconclusive", 1); return }
    // (what the exit status is when the rules or words are in error is not part of the property; a crash is)
    if ran.code != Some(0) && (expected.is_ok() || ran.code.map(|c| c > 2).unwrap_or(true)) { fail(rep, "run:exit-status", p, &files, json!({"code": ran.code, "stderr": ran.stderr, "stdout": ran.stdout})); return }
    match &expected {
        Ok(exp) => {
            let got = std::fs::read_to_string(&out_path);
            let Ok(got) = got else { fail(rep, "run:no-output-file", p, &files, json!({"stdout": ran.stdout})); return };
            if got != exp.join("\n") { fail(rep, "run:output-file-differs-from-library", p, &files, json!({"expected": exp, "observed": got.split('\n').collect::<Vec<_>>()})); return }
            // stdout pairs
            let mut pairs = Vec::new(); let mut seen_header = false;
            for l in ran.stdout.lines() { if l.trim() == "OUTPUT" { seen_header = true; continue } if !seen_header { continue } if let Some((b, a)) = l.split_once(" => ") { pairs.push((b.trim().to_string(), a.trim_end().to_string())); } }
            let exp_pairs: Vec<(String, String)> = words.iter().zip(exp).filter(|(b, a)| !(b.is_empty() && a.is_empty())).map(|(b, a)| (b.clone(), a.clone())).collect();
            if pairs != exp_pairs { fail(rep, "run:stdout-pairs-differ", p, &files, json!({"expected": exp_pairs, "observed": pairs})); return }
            if *exp != words { rep.nontrivial(hash64(&(&rs, &ws, &al))); if rep.samples.len() < 3 { let v = json!({"files": files, "out.wsca": got}); rep.sample(|| v); } }
        }
        Err(_) => { if out_path.exists() { fail(rep, "run:wrote-a-file-although-the-library-errors", p, &files, json!({"stdout": ran.stdout})); return } rep.obs("library_error_projects", 1); }
    }
    // (2) run -j
    std::fs::write(dir.join("model.json"), serde_json::to_string_pretty(&p.json()).unwrap()).ok();
    let ran = run_asca(dir, &["run", "-j", "model.json", "-o", "out2.wsca"]);
    if ran.code != Some(0) || ran.timed_out { fail(rep, "run-json:exit-status", p, &files, json!({"code": ran.code, "stderr": ran.stderr})); return }
    if let Ok(exp) = &expected { match std::fs::read_to_string(dir.join("out2.wsca")) { Ok(g) if g == exp.join("\n") => {}, other => { fail(rep, "run-json:output-differs", p, &files, json!({"expected": exp, "observed": other.ok()})); return } } }
    // (3) conv asca == model
    let mut args = vec!["conv", "asca", "-w", "w.wsca", "-r", "r.rsca", "-o", "conv.json"]; if has_alias { args.extend(["-a", "a.alias"]); }
    let ran = run_asca(dir, &args);
    if ran.code != Some(0) || ran.timed_out { fail(rep, "conv-asca:exit-status", p, &files, json!({"code": ran.code, "stderr": ran.stderr})); return }
    let conv: Option<Value> = std::fs::read_to_string(dir.join("conv.json")).ok().and_then(|t| serde_json::from_str(&t).ok());
    let Some(conv) = conv else { fail(rep, "conv-asca:no-json", p, &files, json!({"stdout": ran.stdout})); return };
    if conv != p.json() { let what = ["words", "rules", "into", "from"].iter().find(|k| conv[**k] != p.json()[**k]).cloned().unwrap_or("?"); fail(rep, &format!("conv-asca:{what}-differ-from-the-files"), p, &files, json!({"expected": p.json()[what], "observed": conv[what]})); return }
    rep.obs("conv_asca_ok", 1);
    // (4) json -> files -> json
    if safe {
        let d2 = dir.join("rt"); std::fs::create_dir_all(&d2).ok();
        std::fs::copy(dir.join("conv.json"), d2.join("in.json")).ok();
        let explicit = r.chance(1, 2);
        let ran = if explicit { run_asca(&d2, &["conv", "json", "-p", "in.json", "-w", "W.wsca", "-r", "R.rsca", "-a", "A.alias"]) } else { run_asca(&d2, &["conv", "json", "-p", "in.json"]) };
        if ran.code != Some(0) || ran.timed_out { fail(rep, "conv-json:exit-status", p, &files, json!({"code": ran.code, "stderr": ran.stderr, "stdout": ran.stdout})); return }
        let (wf, rf, af) = if explicit { ("W.wsca", "R.rsca", "A.alias") } else { ("out.wsca", "out.rsca", "out.alias") };
        let mut args = vec!["conv", "asca", "-w", wf, "-r", rf, "-o", "back.json"]; if has_alias { args.extend(["-a", af]); }
        let ran2 = run_asca(&d2, &args);
        if ran2.code != Some(0) || ran2.timed_out { fail(rep, "conv-json:files-not-readable-back", p, &files, json!({"code": ran2.code, "stderr": ran2.stderr, "stdout": ran.stdout, "written_rules": std::fs::read_to_string(d2.join(rf)).ok(), "written_alias": std::fs::read_to_string(d2.join(af)).ok()})); return }
        let back: Option<Value> = std::fs::read_to_string(d2.join("back.json")).ok().and_then(|t| serde_json::from_str(&t).ok());
        if back.as_ref() != Some(&conv) { let what = ["words", "rules", "into", "from"].iter().find(|k| back.as_ref().map(|b| b[**k] != conv[**k]).unwrap_or(true)).cloned().unwrap_or("?"); fail(rep, &format!("conv-json:round-trip-loses-{what}{}", if explicit { ":explicit-paths" } else { "" }), p, &files, json!({"expected": conv[what], "observed": back.map(|b| b[what].clone()), "written_rules": std::fs::read_to_string(d2.join(rf)).ok()})); return }
        rep.obs("round_trips_ok", 1);
    }
}

const STREAM: u64 = 0x19;

fn one(r: &mut Rng, rep: &mut Report, i: u64, shard: usize, seed: u64) {
    REGEN.with(|c| c.set(Some((seed, i))));
    let safe = r.chance(1, 2);
    let p = rand_project(r, safe);
    let dir = scratch("c19", shard, i);
    judge(rep, r, &dir, &p, safe);
    cleanup(&dir);
    REGEN.with(|c| c.set(None));
}

pub fn explore(ctx: &Ctx, shard: usize, n: usize) -> Report {
    let seed = ctx.seed;
    let rep = drive::cases(ctx, shard, n, RULE, STREAM, 480, 100000, |r, rep, i| one(r, rep, i, shard, seed));
    cleanup_root("c19", shard);
    rep
}

pub fn replay(_ctx: &Ctx, v: &Value) -> Report {
    // a witness found by exploration is regenerated from (seed, case index), choices included; a hand-written one (known
    // findings) gives the project model, which is serialised and driven with eight different streams of choices
    let mut rep = Report::new(RULE);
    if let (Some(seed), Some(i)) = (v["regen"]["seed"].as_u64(), v["regen"]["index"].as_u64()) {
        let mut r = Rng::new(seed, (STREAM << 40) ^ i);
        one(&mut r, &mut rep, i, 9000, seed);
        cleanup_root("c19", 9000);
        return rep;
    }
    let pj = &v["project"];
    let groups: Vec<asca::RuleGroup> = pj["rules"].as_array().map(|a| a.iter().map(|g| asca::RuleGroup::from(jstr(g, "name"), jstrs(g, "rule"), jstr(g, "description"))).collect()).unwrap_or_default();
    let p = Project { groups, words: jstrs(pj, "words").into_iter().map(|w| (w, String::new())).collect(), into: jstrs(pj, "into"), from: jstrs(pj, "from") };
    let safe = p.words.last().map(|w| !w.0.is_empty()).unwrap_or(false) && p.words.iter().all(|w| !w.0.is_empty());
    for k in 0..8u64 {
        let dir = scratch("c19r", 0, k);
        let mut r = Rng::new(1, 1 + k);
        judge(&mut rep, &mut r, &dir, &p, safe);
        cleanup(&dir);
        if !rep.violations.is_empty() { break }
    }
    cleanup_root("c19r", 0);
    rep
}
