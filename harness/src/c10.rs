//! C10 – rule lists compose: running in stages equals running all at once (public API).
use crate::c08::check_word;
use crate::gen::*;
use crate::{drive, proj, report::Report, run::*, util::*, Ctx};
use asca::RuleGroup;
use serde_json::{json, Value};

const RULE: &str = "sequences of 2-8 rules (full-grammar generator, harvested rules) x generated words incl. americanist and alias letters, and the shipped Indo-European > Proto-Germanic pipeline on the shipped lexicon: for every split point k with a renderable intermediate, run(r1..rn)(w) must equal run(rk+1..rn)(run(r1..rk)(w)); 3 random regroupings of r1..rn into rule groups, with empty groups added, must give the same words. A failing case is attributed: americanist letter in the input (the output convention is per input word and is lost by staging), intermediate word violating C08's invariants, intermediate not surviving C09's round trip, or other. Non-trivial = the sequence changed the word and >= 2 of its rules changed it; distinct = distinct (rules, word).";

pub struct Case { pub rules: Vec<String>, pub word: String, pub into: Vec<String>, pub regroup_seed: u64 }
impl Case { fn json(&self) -> Value { json!({"rules": self.rules, "word": self.word, "into": self.into, "regroup_seed": self.regroup_seed}) } }

const AMER: [char; 5] = ['¢', 'ƛ', 'λ', 'ł', 'ñ'];

fn gen(r: &mut Rng, corpus: &[String]) -> Case {
    let n = r.range(2, 8);
    let cfg = RuleCfg { max_side: 2, ..RuleCfg::default() };
    // only rules that parse (a sequence with one unparsable rule fails as a whole and exercises nothing)
    let rules: Vec<String> = (0..n).map(|_| { for _ in 0..6 { let x = if !corpus.is_empty() && r.chance(1, 3) { r.pick(corpus).clone() } else if r.chance(1, 4) { r.pick(&crate::c08::TEMPLATES).to_string() } else { plain(&rand_rule(r, &cfg)) }; if compile1(&x).is_ok() { return x } } "a > a".to_string() }).collect();
    // a tenth of the cases are about segments that can only be written with two diacritics on a base that is itself a base phone
    // with the first of them (β̞ is one, so β + lowered + voiced must not be printed as `β̞̬`): fricatives made approximant and more
    let mut rules = rules; let mut collide = false;
    if r.chance(1, 10) { collide = true; let k = r.below(rules.len() + 1); rules.insert(k, r.pick(&["β > [+approx]", "ɸ > [+approx, +voice]", "[+cont, -son, -strid] > [+approx]", "ʁ > [+approx, +round]", "ɸ > [+approx, +nasal]", "β > [+approx, +round]"]).to_string()); let j = r.below(rules.len() + 1); rules.insert(j, r.pick(&["a > o / [-son]_", "V > [+nasal] / [+approx]_", "[-son] > [+voice]", "[+approx] > [-round]"]).to_string()); }
    // a quarter of the lists also hold blank and comment-only lines (they are lines of a group like any other, and do nothing)
    if r.chance(1, 4) { for _ in 0..r.range(1, 2) { let k = r.below(rules.len() + 1); rules.insert(k, [";; a comment", "", "   ", ";; a > e / _#"][r.below(4)].to_string()); } }
    let mut word = rand_word(r, &WordCfg::default());
    if collide { word = format!("{}.{}a", word, r.pick(&["β", "ɸ", "ʁ", "βʷ", "ɣ"])); }
    match r.below(12) {
        0 => { word = word.replacen(['t', 's'], "¢", 1) }
        1 => { word = word.replacen('l', "ł", 1).replacen('n', "ñ", 1) }
        2 => { word = word.replace('ˈ', "'").replace('ˌ', ",").replace('ː', ":") }
        3 => { word = word.replacen('ʃ', "S", 1).replacen('ɡ', "g", 1).replacen('ʔ', "?", 1) }
        _ => {}
    }
    Case { rules, word, into: vec![], regroup_seed: r.next() }
}

fn run1(groups: &[RuleGroup], word: &str, into: &[String]) -> Result<String, Applied> { run_pub(groups, &[word.to_string()], into, &[]).map(|v| v[0].clone()) }

pub fn judge(rep: &mut Report, c: &Case) {
    rep.eval(1);
    let all = groups_of(&c.rules);
    let full = match run1(&all, &c.word, &c.into) { Ok(x) => x, Err(Applied::Abort(s)) => { rep.abort(s, || c.json()); return } Err(_) => { rep.obs("full_run_err", 1); return } };
    if full.contains('\u{fffd}') { rep.obs("unrenderable_result", 1); return }
    let amer = c.word.chars().any(|ch| AMER.contains(&ch));
    // how many rules change the word (structurally)?
    let mut changing = 0;
    if let (Ok(w), Ok(pr)) = (parse_word_with(&c.word, &c.into), compile_groups(&all)) { if let Ok(states) = apply_all(&pr, &w) { let mut prev = w.clone(); for s in &states { if *s != prev { changing += 1 } prev = s.clone(); } } }
    if changing >= 2 { rep.nontrivial(hash64(&(&c.rules, &c.word))); if rep.samples.len() < 4 { let v = json!({"rules": c.rules, "word": c.word, "result": full}); rep.sample(|| v); } }
    for k in 0..=c.rules.len() {
        let mid = match run1(&all[..k], &c.word, &c.into) { Ok(x) => x, Err(_) => continue };
        if mid.contains('\u{fffd}') { rep.obs("unrenderable_intermediate", 1); continue }
        rep.obs("split_points_checked", 1);
        let staged = run1(&all[k..], &mid, &[]);
        let ok = matches!(&staged, Ok(s) if *s == full);
        if !ok {
            // attribution
            let mut cause = "other".to_string();
            // the americanist letters are to blame only if the same word typed with their IPA equivalents composes properly
            let deamer = c.word.replace('¢', "t͡s").replace('ƛ', "t͡ɬ").replace('λ', "d͡ɮ").replace('ł', "ɬ").replace('ñ', "ɲ");
            let amer_is_the_cause = amer && match (run1(&all, &deamer, &c.into), run1(&all[..k], &deamer, &c.into)) { (Ok(f2), Ok(m2)) => matches!(run1(&all[k..], &m2, &[]), Ok(s2) if s2 == f2), _ => false };
            if amer_is_the_cause { cause = "americanist-letter-in-input".into() }
            else if let (Ok(w), Ok(pr)) = (parse_word_with(&c.word, &c.into), compile_groups(&all[..k])) {
                let midw = if k == 0 { Some(w.clone()) } else { apply_all(&pr, &w).ok().and_then(|mut v| v.pop()) };
                if let Some(mw) = midw {
                    if let Some(v) = check_word(&mw) { cause = format!("C08-{}", v.split('(').next().unwrap_or("")) }
                    else if let Ok(t) = render(&mw) { match parse_word(&t) { Ok(back) if back == mw => {}, _ => cause = if crate::c09::click_ambiguous(&mw) { "C09-stop-next-to-a-click-in-the-intermediate".into() } else { "C09-roundtrip-of-intermediate".into() } } }
                }
            }
            let obs = match &staged { Ok(s) => s.clone(), Err(e) => e.tag() };
            rep.violation(format!("staged-differs cause={cause}"), || json!({"case": c.json(), "split": k, "intermediate": mid, "expected": full, "observed": obs}));
            return;
        }
    }
    // regroupings
    let mut r = Rng::new(c.regroup_seed, 7);
    for _ in 0..3 {
        let mut groups: Vec<RuleGroup> = Vec::new(); let mut cur: Vec<String> = Vec::new();
        for rule in &c.rules { cur.push(rule.clone()); if r.chance(1, 2) { groups.push(RuleGroup::from(format!("g{}", groups.len()), std::mem::take(&mut cur), "d".to_string())); if r.chance(1, 4) { groups.push(RuleGroup::from_rules(vec![])); } } }
        if !cur.is_empty() { groups.push(RuleGroup::from_rules(cur)); }
        if r.chance(1, 3) { groups.insert(0, RuleGroup::from_rules(vec![";; empty".into()])); }
        rep.obs("regroupings_checked", 1);
        match run1(&groups, &c.word, &c.into) {
            Ok(s) if s == full => {}
            Ok(s) => { let gj: Vec<Vec<String>> = groups.iter().map(|g| g.rule.clone()).collect(); rep.violation("regrouping-differs".into(), || json!({"case": c.json(), "groups": gj, "expected": full, "observed": s})); return }
            Err(Applied::Abort(s)) => { rep.abort(s, || c.json()); return }
            Err(e) => { let t = e.tag(); rep.violation("regrouping-fails".into(), || json!({"case": c.json(), "observed": t})); return }
        }
    }
}

pub fn explore(ctx: &Ctx, shard: usize, n: usize) -> Report {
    let (corpus, _) = harvest(&ctx.repo);
    let mut rep = drive::cases(ctx, shard, n, RULE, 0x10, 30_000, 5_000_000, |r, rep, _| { let c = gen(r, &corpus); judge(rep, &c); });
    // the shipped pipeline, every word, every split point between rule groups
    if let Some(sh) = proj::shipped_germanic(&ctx.repo) {
        let rules: Vec<String> = sh.groups.iter().flat_map(|g| g.rule.clone()).collect();
        if shard == 0 { rep.obs("shipped_rules", rules.len() as u64); rep.obs("shipped_words", sh.words.len() as u64); }
        let step = ctx.pick(8, 1) as usize;
        for (i, w) in sh.words.iter().enumerate() {
            if i % n != shard { continue }
            // split points: a seeded 1/step of the rule boundaries per word (all of them in thorough)
            rep.eval(1);
            let all = groups_of(&rules);
            let Ok(full) = run1(&all, w, &sh.into) else { rep.obs("shipped_word_err", 1); continue };
            rep.nontrivial(hash64(&(w, 0x5417u32)));
            for k in (0..=rules.len()).filter(|k| (k + i) % step == 0) {
                let Ok(mid) = run1(&all[..k], w, &sh.into) else { continue };
                if mid.contains('\u{fffd}') { continue }
                rep.obs("shipped_split_points_checked", 1);
                match run1(&all[k..], &mid, &[]) {
                    Ok(s) if s == full => {}
                    other => { let obs = match &other { Ok(s) => s.clone(), Err(e) => e.tag() }; let (w2, r2) = (w.clone(), rules.clone()); let into = sh.into.clone();
                        rep.violation("shipped-pipeline-staged-differs".into(), || json!({"case": {"rules": r2, "word": w2, "into": into, "regroup_seed": 0}, "split": k, "intermediate": mid, "expected": full, "observed": obs})); break }
                }
            }
        }
    } else if shard == 0 { rep.notes.push("shipped example project not found".into()); }
    rep
}

pub fn replay(_ctx: &Ctx, v: &Value) -> Report {
    let mut rep = Report::new(RULE);
    judge(&mut rep, &Case { rules: jstrs(v, "rules"), word: jstr(v, "word"), into: jstrs(v, "into"), regroup_seed: ju64(v, "regroup_seed") });
    rep
}
