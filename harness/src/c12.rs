//! C12 – documented shorthands mean exactly their expansions (both forms printed from one description).
use crate::gen::*;
use crate::{drive, report::Report, run::*, sw, util::*, Ctx};
use serde_json::{json, Value};

const RULE: &str = "five shorthand families, each printed in both forms from one description and applied to the same words (all words of <= 4 segments over {a k i t} in every syllabification for a seeded share of the cases, plus generated words over the full inventory): (a) condensed comma rules vs the sequence of their sub-rules with singletons broadcast; (b) `_,X` vs `X_ , _X` with X mirrored (X flat: segments, matrices, sets, boundaries); (c) a group letter vs the matrix the manual gives for it, in input, context and with modifiers; (d) an optional `(X,M:N)` in the context or exception of a substitution / deletion / metathesis vs the environment set of its M..N explicit repetitions (an open upper bound is expanded to the word's length), incl. a following multi-element rest; (e) `A B > &` vs `A=1 B=2 > 2 1` on matrices and groups. Structural results (hook) must be equal, or both must fail. Non-trivial = the shorthand changed the word; distinct = distinct (shorthand, word).";

const EL: [&str; 13] = ["a", "i", "t", "s", "V", "C", "[+voice]", "[+cont]", "{p,t,k}", "{V,n}", "N", "O", "k"];

pub struct Case { pub family: String, pub short: Vec<String>, pub long: Vec<String>, pub words: Vec<String> }

fn small_words(r: &mut Rng, count: usize) -> Vec<String> {
    let inv = ["a", "k", "i", "t"];
    (0..count).map(|_| { let n = r.range(1, 5); let mut s = String::new(); for j in 0..n { if j > 0 && r.chance(1, 3) { s.push('.') } s += inv[r.below(4)]; } s }).collect()
}

/// which side of the underline the optional stands on (decided by the text so that both spellings agree)
fn r_before(pre: &str) -> bool { pre.len() % 2 == 0 }

fn group_matrix(c: char) -> &'static str {
    match c { 'C' => "[-syll]", 'O' => "[+cons, -son, -syll]", 'S' => "[+cons, +son, -syll]", 'P' => "[+cons, -son, -syll, -delrel, -cont]", 'F' => "[+cons, -son, -syll, -approx, +cont]", 'L' => "[+cons, +son, -syll, +approx]", 'N' => "[+cons, +son, -syll, -approx, +nasal]", 'G' => "[-cons, +son, -syll]", _ => "[-cons, +son, +syll]" }
}

pub(crate) fn gen(r: &mut Rng) -> Case {
    let mut words: Vec<String> = if r.chance(1, 2) { small_words(r, 12) } else { (0..8).map(|_| rand_word(r, &WordCfg::default())).collect() };
    match r.below(6) {
        5 => { // spellings of one optional: `(X)` = `(X,1)` = `(X,0:1)`, `(X,N)` = `(X,0:N)`
            let x = *r.pick(&EL[..]);
            let (a, b) = match r.below(4) { 0 => (format!("({x})"), format!("({x},1)")), 1 => (format!("({x})"), format!("({x},0:1)")), 2 => (format!("({x},1)"), format!("({x},0:1)")), _ => { let n = r.range(2, 4); (format!("({x},{n})"), format!("({x},0:{n})")) } };
            let pre = if r.chance(1, 2) { format!("{} ", r.pick(&EL[..])) } else { String::new() };
            let post = if r.chance(1, 2) { format!(" {}", r.pick(&EL[..])) } else { String::new() };
            let inp = *r.pick(&["a", "V", "C", "s"][..]); let out = *r.pick(&["o", "x", "[+nasal]", "*"][..]);
            let env = |o: &str| if r_before(&pre) { format!("{pre}{o}{post} _") } else { format!("_ {pre}{o}{post}") };
            Case { family: "optional-spelling".into(), short: vec![format!("{inp} > {out} / {}", env(&a))], long: vec![format!("{inp} > {out} / {}", env(&b))], words }
        }
        0 => { // condensed
            let k = r.range(2, 3);
            let ins: Vec<&str> = (0..k).map(|_| *r.pick(&["a", "i", "V", "s", "t", "C", "k"][..])).collect();
            let outs: Vec<&str> = (0..k).map(|_| *r.pick(&["o", "x", "e", "[+nasal]", "*"][..])).collect();
            let envs: Vec<&str> = (0..k).map(|_| *r.pick(&["_#", "#_", "_C", "V_", "_$", "t_", "_ (C) #", ":{ _t, k_ }:"][..])).collect();
            let (a, b) = match r.below(7) {
                0 => (format!("{} > {} / {}", ins.join(", "), outs.join(", "), envs[0]), ins.iter().zip(&outs).map(|(i, o)| format!("{i} > {o} / {}", envs[0])).collect()),
                1 => (format!("{} > {} / {}", ins[0], outs[0], envs.join(", ")), envs.iter().map(|e| format!("{} > {} / {e}", ins[0], outs[0])).collect()),
                2 => (format!("{} > {} / {}", ins.join(", "), outs[0], envs.join(", ")), ins.iter().zip(&envs).map(|(i, e)| format!("{i} > {} / {e}", outs[0])).collect()),
                3 => (format!("{} > {} | {}", ins.join(", "), outs.join(", "), envs.join(", ")), (0..k).map(|j| format!("{} > {} | {}", ins[j], outs[j], envs[j])).collect()),
                // the exception block alone is condensed (seed C12-e): one sub-rule per exception, input/output/context broadcast
                5 => (format!("{} > {} | {}", ins[0], outs[0], envs.join(", ")), envs.iter().map(|e| format!("{} > {} | {e}", ins[0], outs[0])).collect()),
                6 => (format!("{} > {} / {} | {}", ins[0], outs[0], envs[k - 1], envs.join(", ")), envs.iter().map(|e| format!("{} > {} / {} | {e}", ins[0], outs[0], envs[k - 1])).collect()),
                _ => (format!("{} > {}", ins.join(", "), outs[0]), ins.iter().map(|i| format!("{i} > {}", outs[0])).collect::<Vec<String>>()),
            };
            Case { family: "condensed".into(), short: vec![a], long: b, words }
        }
        1 => { // special environment
            let n = r.range(1, 3);
            let mut xs: Vec<&str> = (0..n).map(|_| *r.pick(&EL[..])).collect();
            if r.chance(1, 4) { xs.insert(0, "#") } else if r.chance(1, 6) { xs.insert(r.below(xs.len() + 1), "$") }
            let inp = *r.pick(&["a", "V", "C", "s", "i"][..]); let out = *r.pick(&["o", "x", "[+nasal]", "*"][..]);
            let rev: Vec<&str> = xs.iter().rev().cloned().collect();
            let sep = if r.chance(1, 4) { "|" } else { "/" };
            Case { family: "special-env".into(), short: vec![format!("{inp} > {out} {sep} _,{}", xs.join(" "))], long: vec![format!("{inp} > {out} {sep} {} _ , _ {}", xs.join(" "), rev.join(" "))], words }
        }
        2 => { // group letters
            let g = *r.pick(&GROUPS[..]);
            let tm = *r.pick(&["{} > x", "{} > [+long]", "a > o / _{}", "a > o / {}_", "{} > * / _#", "{}:[+stress] > [+nasal]", "{}=1 > 1 1", "a > e | _{}", "⟨{} V⟩ > [+stress]"][..]);
            let m = group_matrix(g);
            let long = if tm.contains("{}:[") { tm.replace("{}:[", &format!("{}, ", &m[..m.len() - 1])) } else { tm.replace("{}", m) };
            words.extend((0..8).map(|_| rand_word(r, &WordCfg::default())));
            Case { family: format!("group-letter:{g}"), short: vec![tm.replace("{}", &g.to_string())], long: vec![long], words }
        }
        3 => { // optionals
            // a third of the cases aim at the retry path: a broad repeated element with room for more repetitions, followed by a
            // rest of two or three elements whose first is broad too (so that the rest often matches in part and then fails)
            let retry = r.chance(1, 3);
            const BROAD: [&str; 6] = ["[+cont]", "[+voice]", "V", "C", "[]", "{V,n}"];
            let x = if retry { *r.pick(&BROAD[..]) } else { *r.pick(&EL[..]) };
            let m = if retry { r.range(1, 2) } else { r.below(3) };
            let nmax = if retry { m + r.range(1, 2) } else { match r.below(4) { 0 => 0, _ => m + r.below(3) } };
            let nmax = if nmax == 0 && m > 0 { m } else { nmax };
            let pre: Vec<&str> = (0..r.below(2)).map(|_| *r.pick(&EL[..])).collect();
            let post: Vec<&str> = if retry { let mut v = vec![*r.pick(&BROAD[..])]; for _ in 0..r.range(1, 2) { v.push(*r.pick(&EL[..])) } v } else { (0..r.below(3)).map(|_| *r.pick(&EL[..])).collect() };
            if retry { words = (0..10).map(|_| rand_word(r, &WordCfg::default())).collect(); }
            let inp = *r.pick(&["a", "V", "C", "s", "{i,u}", "a t"][..]); let out = if inp == "a t" { *r.pick(&["&", "*"][..]) } else { *r.pick(&["o", "x", "[+nasal]", "*"][..]) };
            let before = r.chance(1, 2);
            let maxlen = words.iter().map(|w| w.chars().count()).max().unwrap_or(4);
            let hi = if nmax == 0 { maxlen } else { nmax };
            let env = |k: usize| -> String { let reps = vec![x; k].join(" "); let mid = format!("{} {} {}", pre.join(" "), reps, post.join(" ")); let mid = mid.split_whitespace().collect::<Vec<_>>().join(" "); if before { format!("{mid} _") } else { format!("_ {mid}") } };
            let opt = if m == 0 && nmax == 1 && r.chance(1, 2) { format!("({x})") } else if m == 0 { format!("({x},{nmax})") } else { format!("({x},{m}:{nmax})") };
            let mid = format!("{} {} {}", pre.join(" "), opt, post.join(" ")); let mid = mid.split_whitespace().collect::<Vec<_>>().join(" ");
            let short_env = if before { format!("{mid} _") } else { format!("_ {mid}") };
            let sep = if r.chance(1, 3) { "|" } else { "/" };
            let set = (m..=hi).map(env).collect::<Vec<_>>().join(", ");
            Case { family: format!("optional:{}", if nmax == 0 { "open" } else { "bounded" }), short: vec![format!("{inp} > {out} {sep} {short_env}")], long: vec![format!("{inp} > {out} {sep} :{{ {set} }}:")], words }
        }
        _ => { // metathesis
            let a = *r.pick(&["C", "V", "[+cons]", "O", "[+voice]", "[]"][..]); let b = *r.pick(&["C", "V", "[+son]", "N", "[-voice]", "[]"][..]);
            let env = *r.pick(&["", " / _#", " / #_", " / _C", " | _s", " / V_"][..]);
            Case { family: "metathesis".into(), short: vec![format!("{a} {b} > &{env}")], long: vec![format!("{a}=1 {b}=2 > 2 1{env}")], words }
        }
    }
}

pub fn judge(rep: &mut Report, c: &Case) {
    let cj = |w: &str| json!({"family": c.family, "short": c.short, "long": c.long, "words": [w]});
    let (rs, rl) = (compile(&c.short), compile(&c.long));
    let (rs, rl) = match (rs, rl) {
        (Ok(a), Ok(b)) => (a, b),
        (Err(Applied::Abort(s)), _) | (_, Err(Applied::Abort(s))) => { rep.eval(1); rep.abort(s, || cj("")); return }
        (Err(_), Err(_)) => { rep.eval(1); rep.obs("both_rejected", 1); return }
        (a, b) => { rep.eval(1); let t = format!("short: {} / long: {}", a.is_ok(), b.is_ok()); rep.violation(format!("{}:one-form-is-rejected", c.family), || json!({"case": cj(""), "observed": t})); return }
    };
    for wt in &c.words {
        let Ok(w) = parse_word(wt) else { continue };
        if w.syllables.is_empty() { continue }
        rep.eval(1);
        let (a, b) = (apply(&rs, &w), apply(&rl, &w));
        match (&a, &b) {
            (Applied::Ok(x), Applied::Ok(y)) => {
                if x != y {
                    let long_seg = w.syllables.iter().any(|s| (1..s.segments.len()).any(|j| s.segments[j] == s.segments[j - 1]));
                    let sig = if c.family == "metathesis" && long_seg { "metathesis:long-segment-in-the-word".to_string() } else { c.family.clone() };
                    rep.violation(sig, || json!({"case": cj(wt), "expected": sw::dump_json(y), "observed": sw::dump_json(x)}));
                    return;
                }
                if *x != w { rep.nontrivial(hash64(&(&c.short, wt))); if rep.samples.len() < 6 { let v = json!({"family": c.family, "short": c.short, "long": c.long, "word": wt, "both_give": sw::render(x)}); rep.sample(|| v); } }
            }
            (Applied::Abort(s), _) | (_, Applied::Abort(s)) => rep.abort(s.clone(), || cj(wt)),
            (Applied::Err(_), Applied::Err(_)) => rep.obs("both_err", 1),
            _ => { let t = format!("short: {} / long: {}", a.tag(), b.tag()); rep.violation(format!("{}:one-form-fails", c.family), || json!({"case": cj(wt), "observed": t})); return }
        }
    }
}

pub fn explore(ctx: &Ctx, shard: usize, n: usize) -> Report {
    let mut rep = drive::cases(ctx, shard, n, RULE, 0x12, 40_000, 20_000_000, |r, rep, _| { let c = gen(r); judge(rep, &c); });
    // group letters against the manual's matrices on EVERY single segment the notation can write (base + <= 1 diacritic; + <= 2 in
    // the thorough tier): the two only differ on segments that ordinary words do not contain (a nasalised lateral, a lowered nasal ...)
    let segs = single_segments(ctx.pick(1, 2) as usize);
    // a group letter with a modifier - also one that contradicts a feature the letter itself fixes (`P:[+delrel]` = affricates): the
    // modifier overrides; the expansion is the letter's matrix with that feature replaced (or added)
    let mods_feats = ["cons", "son", "syll", "delrel", "cont", "approx", "nasal", "voice", "lat", "strid"];
    let mut pairs: Vec<(String, String, String)> = Vec::new();
    for g in GROUPS { for f in mods_feats { for sg in ['+', '-'] {
        let m = group_matrix(g); let body = &m[1..m.len() - 1];
        let mut items: Vec<String> = body.split(", ").map(|x| x.to_string()).collect();
        if let Some(it) = items.iter_mut().find(|x| &x[1..] == f) { *it = format!("{sg}{f}") } else { items.push(format!("{sg}{f}")) }
        pairs.push((format!("group-letter:{g}:with-modifier"), format!("{g}:[{sg}{f}] > [+stress]"), format!("[{}] > [+stress]", items.join(", "))));
    } } }
    for (pi, (fam, sh, lo)) in pairs.iter().enumerate() {
        let (Ok(short), Ok(long)) = (compile(&[sh.clone()]), compile(&[lo.clone()])) else { continue };
        for (k, (t, w)) in segs.iter().enumerate() {
            if (k + pi) % n != shard || (ctx.quick() && (k + pi) % 3 != 0) { continue }
            rep.eval(1);
            let (a, b) = (apply(&short, w), apply(&long, w));
            let same = match (&a, &b) { (Applied::Ok(x), Applied::Ok(y)) => x == y, (Applied::Err(_), Applied::Err(_)) => true, (Applied::Abort(_), _) | (_, Applied::Abort(_)) => true, _ => false };
            if !same { let t2 = t.clone(); rep.violation(format!("{fam}:segment-sweep"), || json!({"case": {"family": fam, "short": [sh], "long": [lo], "words": [t2]}, "observed": format!("short: {} / long: {}", a.tag(), b.tag())})); }
            else if let Applied::Ok(x) = &a { if x != w { rep.nontrivial_enum(1); } }
        }
    }
    for g in GROUPS {
        let (Ok(short), Ok(long)) = (compile(&[format!("{g} > [+stress]")]), compile(&[format!("{} > [+stress]", group_matrix(g))])) else { rep.violation(format!("group-letter:{g}:one-form-is-rejected"), || json!({"case": {"family": format!("group-letter:{g}"), "short": [format!("{g} > [+stress]")], "long": [format!("{} > [+stress]", group_matrix(g))], "words": []}})); continue };
        for (k, (t, w)) in segs.iter().enumerate() {
            if k % n != shard { continue }
            rep.eval(1);
            let (a, b) = (apply(&short, w), apply(&long, w));
            let same = match (&a, &b) { (Applied::Ok(x), Applied::Ok(y)) => x == y, (Applied::Err(_), Applied::Err(_)) => true, (Applied::Abort(_), _) | (_, Applied::Abort(_)) => true, _ => false };
            if !same { let t2 = t.clone(); rep.violation(format!("group-letter:{g}:segment-sweep"), || json!({"case": {"family": format!("group-letter:{g}"), "short": [format!("{g} > [+stress]")], "long": [format!("{} > [+stress]", group_matrix(g))], "words": [t2]}, "observed": format!("short: {} / long: {}", a.tag(), b.tag())})); }
            else if let Applied::Ok(x) = &a { if x != w { rep.nontrivial_enum(1); } }
        }
    }
    rep
}
pub fn replay(_ctx: &Ctx, v: &Value) -> Report {
    let mut rep = Report::new(RULE);
    judge(&mut rep, &Case { family: jstr(v, "family"), short: jstrs(v, "short"), long: jstrs(v, "long"), words: jstrs(v, "words") });
    rep
}
