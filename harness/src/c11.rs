//! C11 – words are processed independently and returned in order (public API only).
use crate::gen::*;
use crate::{drive, report::Report, run::*, util::*, Ctx};
use serde_json::{json, Value};

const RULE: &str = "rule lists of 1-3 rules (full-grammar generator biased to alphas/variables, plus rules that fail at application time such as `s > [αvoice]`, `a > *`) x word lists of 1-8 lines with duplicates and multi-word lines: (a) run on the list vs run on each line alone, same length and order; (b) a permutation / sub-list of the same lines; (c) `u v` vs the single-space join of u and v; (d) when lines fail, the list fails with the error kind of the first failing line (parse-phase failures first, since all lines are parsed before any rule is applied). Non-trivial = at least one line was changed by the rules (or, for (d), a line failed); distinct = distinct (rules, lines).";

const ERR_RULES: [&str; 8] = ["s > [αvoice]", "a > *", "% > * / _#", "k > [+place]", "V > [-long, +overlong]", "{p, t} > {b}", "V > 1", "* > [+nasal] / a_"];

/// `split`: every rule is a rule group of its own (otherwise all rules form one group)
/// `from`: romanisers (now and then one that prints a vowel as nothing, so that a word of a phrase can come out empty)
pub struct Case { pub rules: Vec<String>, pub lines: Vec<String>, pub order: Vec<usize>, pub split: bool, pub from: Vec<String> }

pub(crate) fn gen(r: &mut Rng) -> Case {
    let mut rules: Vec<String> = Vec::new();
    for _ in 0..r.range(1, 3) {
        if r.chance(1, 6) { rules.push(r.pick(&ERR_RULES).to_string()) } else { rules.push(plain(&rand_rule(r, &RuleCfg::default()))) }
    }
    let wc = WordCfg::default();
    let silent = if r.chance(1, 8) { Some(*r.pick(&["a", "i", "u", "e", "o"])) } else { None };
    let from: Vec<String> = silent.map(|v| vec![format!("{v} > *")]).unwrap_or_default();
    let mut pool: Vec<String> = (0..r.range(1, 5)).map(|_| if r.chance(1, 10) { ["a", "s", "k", "sa"][r.below(4)].to_string() } else { rand_word(r, &wc) }).collect();
    if let Some(v) = silent { pool.push(v.to_string()); pool.push(format!("t{v}")); }
    // the same word typed with an americanist letter and with its IPA value: equal as structures, printed differently
    if r.chance(1, 8) { let (a, b) = *r.pick(&[("¢a", "t͡sa"), ("ƛi", "t͡ɬi"), ("aλ", "ad͡ɮ"), ("łu", "ɬu"), ("ñe", "ɲe")]); pool.push(a.to_string()); pool.push(b.to_string()); pool.push(format!("{b} {a}")); pool.push(format!("{a} {b}")); }
    let mut lines: Vec<String> = Vec::new();
    for _ in 0..r.range(1, 8) {
        let mut l = r.pick(&pool).clone();
        if r.chance(1, 5) { l = format!("{l} {}", r.pick(&pool)); }
        if r.chance(1, 40) { l = "ˈ".into() } // a line that does not parse
        lines.push(l);
    }
    let mut order: Vec<usize> = (0..lines.len()).collect();
    r.shuffle(&mut order);
    if r.chance(1, 3) { order.truncate(r.range(1, order.len())); }
    Case { rules, lines, order, split: r.chance(1, 2), from }
}

fn kind_of(x: &Result<Vec<String>, Applied>) -> String { match x { Ok(v) => format!("Ok{v:?}"), Err(a) => a.tag() } }

pub fn judge(rep: &mut Report, c: &Case) {
    let g: Vec<asca::RuleGroup> = if c.split { c.rules.iter().map(|x| asca::RuleGroup::from_rules(vec![x.clone()])).collect() } else { one_group(&c.rules) };
    let cj = || json!({"rules": c.rules, "lines": c.lines, "order": c.order, "split": c.split, "from": c.from});
    rep.eval(1);
    // per-line runs
    let singles: Vec<Result<Vec<String>, Applied>> = c.lines.iter().map(|l| run_pub(&g, &[l.clone()], &[], &c.from)).collect();
    if let Some(Err(Applied::Abort(s))) = singles.iter().find(|x| matches!(x, Err(Applied::Abort(_)))) { rep.abort(s.clone(), cj); return }
    let whole = run_pub(&g, &c.lines, &[], &c.from);
    if let Err(Applied::Abort(s)) = &whole { rep.abort(s.clone(), cj); return }
    let all_ok = singles.iter().all(|x| x.is_ok());
    if all_ok {
        let exp: Vec<String> = singles.iter().map(|x| x.as_ref().ok().unwrap()[0].clone()).collect();
        if exp != c.lines { rep.nontrivial(hash64(&(&c.rules, &c.lines))); }
        match &whole {
            Ok(got) => {
                if got.len() != c.lines.len() { rep.violation("length".into(), || json!({"case": cj(), "expected": c.lines.len(), "observed": got.len()})); }
                else if *got != exp { let i = (0..exp.len()).find(|i| got[*i] != exp[*i]).unwrap(); rep.violation("line-depends-on-the-list".into(), || json!({"case": cj(), "line": i, "expected": exp[i], "observed": got[i]})); }
            }
            Err(e) => { let t = e.tag(); rep.violation("list-fails-though-every-line-succeeds".into(), || json!({"case": cj(), "observed": t})); }
        }
        // permutation / sub-list
        let sub: Vec<String> = c.order.iter().map(|i| c.lines[*i].clone()).collect();
        let exp_sub: Vec<String> = c.order.iter().map(|i| exp[*i].clone()).collect();
        match run_pub(&g, &sub, &[], &c.from) {
            Ok(got) => if got != exp_sub { rep.violation("permutation".into(), || json!({"case": cj(), "expected": exp_sub, "observed": got})); },
            Err(Applied::Abort(s)) => rep.abort(s, cj),
            Err(e) => { let t = e.tag(); rep.violation("permuted-list-fails".into(), || json!({"case": cj(), "observed": t})); }
        }
        // phrases: a line with several words = the words transformed one by one, joined by single spaces
        for (i, l) in c.lines.iter().enumerate() {
            if !l.contains(' ') { continue }
            let parts: Vec<String> = l.split(' ').map(|s| s.to_string()).collect();
            let each: Vec<Result<Vec<String>, Applied>> = parts.iter().map(|p| run_pub(&g, &[p.clone()], &[], &c.from)).collect();
            if each.iter().all(|x| x.is_ok()) {
                let joined = each.iter().map(|x| x.as_ref().ok().unwrap()[0].clone()).collect::<Vec<_>>().join(" ");
                // the joiner trims the end of the line, so a phrase ending in an empty word is not judged
                // (a word the rules reduce to nothing is C08's business, and the joiner trims it away at the end of a line)
                // (a word may come out empty - deleted by a rule, or printed as nothing by a romaniser: it still takes its place in the
                //  join; only the end of the line is trimmed, as the program has always done)
                if parts.iter().all(|p| !p.is_empty()) && joined.trim_end() != exp[i].trim_end() { rep.violation("phrase".into(), || json!({"case": cj(), "line": i, "expected": joined, "observed": exp[i]})); }
                rep.obs("phrases_checked", 1);
            }
        }
    } else {
        // some line fails: the list must fail, with the error kind of the first failing line of the phase that comes first
        rep.nontrivial(hash64(&(&c.rules, &c.lines, 1u8)));
        let kinds: Vec<Option<String>> = singles.iter().map(|x| match x { Err(Applied::Err(k)) => Some(k.clone()), _ => None }).collect();
        let first_fail = kinds.iter().flatten().next().unwrap();
        // `run` parses every word, then every rule, then applies: a word that does not parse wins over everything, a rule that does
        // not PARSE fails every line alike. A rule-syntax error that is only found when the rule is applied (e.g. UnbalancedRuleIO of a
        // condensed rule) belongs to the word it is found on, like a runtime error.
        let rule_parse_fail = c.rules.iter().any(|x| matches!(compile1(x), Err(Applied::Err(_))));
        let word_syn = kinds.iter().flatten().find(|k| k.starts_with("WordSyn"));
        if rule_parse_fail && word_syn.is_some() { rep.obs("mixed_phase_failures_not_judged", 1); return }
        let expected = if let Some(w) = word_syn { w.clone() } else if rule_parse_fail { kinds.iter().flatten().find(|k| k.starts_with("RuleSyn")).unwrap_or(first_fail).clone() } else { first_fail.clone() };
        rep.obs("failing_lists_judged", 1);
        match &whole {
            Ok(got) => rep.violation("list-succeeds-though-a-line-fails".into(), || json!({"case": cj(), "expected": expected, "observed": got})),
            Err(Applied::Err(k)) => if *k != expected { rep.violation("error-is-not-the-first-failing-line's".into(), || json!({"case": cj(), "expected": expected, "observed": k, "per_line": singles.iter().map(kind_of).collect::<Vec<_>>()})); },
            Err(Applied::Abort(s)) => rep.abort(s.clone(), cj),
            Err(Applied::Ok(_)) => {}
        }
    }
    if rep.samples.len() < 4 && all_ok { let v = cj(); rep.sample(|| v); }
}

pub fn explore(ctx: &Ctx, shard: usize, n: usize) -> Report {
    drive::cases(ctx, shard, n, RULE, 0x11, 60_000, 12_000_000, |r, rep, _| { let c = gen(r); judge(rep, &c); })
}

pub fn replay(_ctx: &Ctx, case: &Value) -> Report {
    let mut rep = Report::new(RULE);
    let order: Vec<usize> = case["order"].as_array().map(|a| a.iter().map(|x| x.as_u64().unwrap_or(0) as usize).collect()).unwrap_or_default();
    judge(&mut rep, &Case { rules: jstrs(case, "rules"), lines: jstrs(case, "lines"), order, split: case["split"].as_bool().unwrap_or(false), from: jstrs(case, "from") });
    rep
}
