//! Boilerplate shared by the generator-driven monitors.
use crate::{report::Report, util::Rng, Ctx};

/// runs `f(rng, report, case index)` for every case index of this shard; case `i` of stream `stream`
/// always sees the same random numbers for a given VERIF_SEED
pub fn cases(ctx: &Ctx, shard: usize, n: usize, rule: &str, stream: u64, quick: u64, thorough: u64, mut f: impl FnMut(&mut Rng, &mut Report, u64)) -> Report {
    let mut rep = Report::new(rule);
    let total = ctx.pick(quick, thorough);
    let mut i = shard as u64;
    while i < total {
        let mut r = Rng::new(ctx.seed, (stream << 40) ^ i);
        f(&mut r, &mut rep, i);
        i += n as u64;
    }
    rep
}
