//! C04 – a feature matrix matches and changes exactly the features it names; alphas carry values.
//! Oracle: an independent bit model written from the documented layout (doc.md feature table and
//! the Place doc comment), NOT from `to_node_mask`.
use crate::{report::Report, run::*, util::*, Ctx};
use asca::verif::Word;
use asca::Segment;
use serde_json::{json, Value};

const RULE: &str = "every base phone and base+1-diacritic spelling that parses to one segment x 26 features x {+,-} and 4 sub-nodes + place x {+,-}, as matcher (`[±F] > [+stress]` on a one-segment unstressed word) and as setter (`[] > [±F]`); feature alpha pairs `[αF] > [αG]` / `[αF] > [-αG]` (all 26x26x2, every segment in thorough, every 7th in quick); node alphas `[] > [αN] / [αM] _` over one donor per distinct place value; node-to-feature coercion `[αN] > [±αF]`; random 2-4 feature matrices; `[αF, ±G] > [(-)αH]` and `[±G] > [(-)αH] / [αF] _ | _ [αF]` with random F, G, H on random words of 2-4 segments (each position judged by the model on its own neighbours; cases creating equal neighbours discarded). Non-trivial = the rule matched (matcher) or changed the bundle (setter/alpha); cases are distinct by construction (rule x segment).";

// independent bit model. node: 0 root, 1 manner, 2 laryngeal, 3 labial, 4 coronal, 5 dorsal, 6 pharyngeal
pub const F: [(&str, u8, u8); 26] = [
    ("cons", 0, 4), ("son", 0, 2), ("syll", 0, 1),
    ("cont", 1, 128), ("approx", 1, 64), ("lat", 1, 32), ("nasal", 1, 16), ("delrel", 1, 8), ("strid", 1, 4), ("rhotic", 1, 2), ("click", 1, 1),
    ("voice", 2, 4), ("sg", 2, 2), ("cg", 2, 1),
    ("labdent", 3, 2), ("round", 3, 1), ("ant", 4, 2), ("dist", 4, 1),
    ("front", 5, 32), ("back", 5, 16), ("hi", 5, 8), ("lo", 5, 4), ("tense", 5, 2), ("red", 5, 1),
    ("atr", 6, 2), ("rtr", 6, 1),
];
pub const SUBNODES: [&str; 4] = ["lab", "cor", "dor", "phr"];

#[derive(Clone, Copy, PartialEq, Eq, Debug, Hash)]
pub struct M { pub root: u8, pub man: u8, pub lar: u8, pub sub: [Option<u8>; 4] }

pub fn to_m(s: &Segment) -> M {
    let p = *s.place;
    let g = |bit: u16, sh: u16, mask: u16| p.and_then(|x| if x & bit != 0 { Some(((x >> sh) & mask) as u8) } else { None });
    M { root: s.root, man: s.manner, lar: s.laryngeal, sub: [g(0x8000, 10, 3), g(0x4000, 8, 3), g(0x2000, 2, 63), g(0x1000, 0, 3)] }
}
pub fn get(m: &M, node: u8) -> Option<u8> { match node { 0 => Some(m.root), 1 => Some(m.man), 2 => Some(m.lar), n => m.sub[(n - 3) as usize] } }
fn setn(m: &mut M, node: u8, v: u8) { match node { 0 => m.root = v, 1 => m.man = v, 2 => m.lar = v, n => m.sub[(n - 3) as usize] = Some(v) } }
pub fn m_match(m: &M, node: u8, mask: u8, pos: bool) -> bool { match get(m, node) { None => false, Some(v) => if pos { v & mask == mask } else { v & mask == 0 } } }
pub fn m_set(m: &mut M, node: u8, mask: u8, pos: bool) { if pos { let v = get(m, node).unwrap_or(0); setn(m, node, v | mask) } else if let Some(v) = get(m, node) { setn(m, node, v & !mask) } }
fn has_place(m: &M) -> bool { m.sub.iter().any(|x| x.is_some()) }

fn seg0(w: &Word) -> Segment { w.syllables[0].segments[0] }
fn sign(pos: bool) -> char { if pos { '+' } else { '-' } }

struct Cx<'a> { rep: &'a mut Report, samples_left: usize }

/// applies `rule` (already compiled) to `w`; returns the model view of the first segment and whether the syllable got stressed
fn obs(rules: &asca::verif::ParsedRules, w: &Word) -> Result<(Vec<M>, bool), Applied> {
    match apply(rules, w) {
        Applied::Ok(r) => {
            if r.syllables.len() != 1 { return Err(Applied::Err(format!("syllable-count-{}", r.syllables.len()))); }
            let ms = r.syllables[0].segments.iter().map(to_m).collect();
            Ok((ms, crate::sw::stress_code(r.syllables[0].stress) == 1))
        }
        other => Err(other),
    }
}

fn viol(cx: &mut Cx, sig: String, rule: &str, text: &str, expected: String, observed: String) {
    let (rule, text) = (rule.to_string(), text.to_string());
    // the expectation comes from the model, not from the tree under test, so it is part of the case: a replay re-runs the
    // real interpreter and compares with it
    let sg = sig.clone();
    cx.rep.violation(sig, || json!({"case": {"rule": rule, "word": text, "expected": expected, "sig": sg}, "expected": expected, "observed": observed}));
}

fn check_case(cx: &mut Cx, rule: &str, rules: &asca::verif::ParsedRules, text: &str, w: &Word, exp: Expect, sig: &str) {
    cx.rep.eval(1);
    let got = obs(rules, w);
    match (exp, got) {
        (Expect::Bundles(e, stressed), Ok((g, gs))) => {
            if g != e || gs != stressed { viol(cx, sig.to_string(), rule, text, format!("{e:?} stressed={stressed}"), format!("{g:?} stressed={gs}")); }
        }
        (Expect::ErrOr(e), Ok((g, _))) => { if g != e { viol(cx, format!("{sig}:neither-err-nor-unchanged"), rule, text, format!("Err or {e:?}"), format!("{g:?}")); } }
        (Expect::ErrOr(_), Err(Applied::Err(_))) => {}
        (_, Err(Applied::Abort(s))) => { let (r, t) = (rule.to_string(), text.to_string()); cx.rep.abort(s, || json!({"rule": r, "word": t})); }
        (Expect::Bundles(e, _), Err(o)) => viol(cx, format!("{sig}:unexpected-error"), rule, text, format!("{e:?}"), o.tag()),
        (Expect::ErrOr(_), Err(o)) => viol(cx, format!("{sig}:odd"), rule, text, "Err".into(), o.tag()),
    }
}
enum Expect { Bundles(Vec<M>, bool), ErrOr(Vec<M>) }

fn run_rule(cx: &mut Cx, rule: String, segs: &[(String, Word)], step: usize, f: &dyn Fn(&M) -> (Expect, bool), sig: &str) {
    let rules = match compile1(&rule) {
        Ok(r) => r,
        // (a rule that has to be an error may just as well be refused when it is parsed)
        Err(o) => { cx.rep.eval(1); let must_err = segs.first().map(|(_, w)| matches!(f(&to_m(&seg0(w))).0, Expect::ErrOr(ref e) if e.is_empty())).unwrap_or(false); if !must_err { viol(cx, format!("{sig}:rule-rejected"), &rule, "", "rule parses".into(), o.tag()); } return; }
    };
    for (k, (t, w)) in segs.iter().enumerate() {
        if k % step != 0 { continue }
        let m = to_m(&seg0(w));
        let (exp, nontrivial) = f(&m);
        if nontrivial { cx.rep.nontrivial_enum(1); if cx.samples_left > 0 && k % 977 == 5 { cx.samples_left -= 1; let (r, t2) = (rule.clone(), t.clone()); let e = match &exp { Expect::Bundles(e, s) => format!("{e:?} stressed={s}"), Expect::ErrOr(_) => "Err".into() }; cx.rep.sample(|| json!({"rule": r, "word": t2, "model_expects": e})); } }
        check_case(cx, &rule, &rules, t, w, exp, sig);
    }
}

pub fn explore(ctx: &Ctx, shard: usize, n: usize) -> Report {
    let mut rep = Report::new(RULE);
    rep.exhaustive = true;
    let segs = single_segments(1);
    if shard == 0 { rep.obs("segments", segs.len() as u64); }
    let mut cx = Cx { rep: &mut rep, samples_left: 2 };
    let mut job = 0usize;
    let mut mine = || { job += 1; (job - 1) % n == shard };
    // 1. features: match and set
    for (name, node, mask) in F { for pos in [true, false] {
        if !mine() { continue }
        let s = sign(pos);
        run_rule(&mut cx, format!("[{s}{name}] > [+stress]"), &segs, 1, &|m| { let hit = m_match(m, node, mask, pos); (Expect::Bundles(vec![*m], hit), hit) }, &format!("match:{s}{name}"));
        run_rule(&mut cx, format!("[] > [{s}{name}]"), &segs, 1, &|m| { let mut e = *m; m_set(&mut e, node, mask, pos); (Expect::Bundles(vec![e], false), e != *m) }, &format!("set:{s}{name}"));
    } }
    // 2. sub-nodes and place
    for (idx, nn) in SUBNODES.iter().enumerate() { for pos in [true, false] {
        if !mine() { continue }
        let s = sign(pos);
        run_rule(&mut cx, format!("[{s}{nn}] > [+stress]"), &segs, 1, &|m| { let hit = m.sub[idx].is_some() == pos; (Expect::Bundles(vec![*m], hit), hit) }, &format!("match-node:{s}{nn}"));
        run_rule(&mut cx, format!("[] > [{s}{nn}]"), &segs, 1, &|m| { let mut e = *m; if pos { if e.sub[idx].is_none() { e.sub[idx] = Some(0) } } else { e.sub[idx] = None } (Expect::Bundles(vec![e], false), e != *m) }, &format!("set-node:{s}{nn}"));
    } }
    if mine() {
        run_rule(&mut cx, "[+place] > [+stress]".into(), &segs, 1, &|m| (Expect::Bundles(vec![*m], has_place(m)), has_place(m)), "match-node:+place");
        run_rule(&mut cx, "[-place] > [+stress]".into(), &segs, 1, &|m| (Expect::Bundles(vec![*m], !has_place(m)), !has_place(m)), "match-node:-place");
        run_rule(&mut cx, "[] > [-place]".into(), &segs, 1, &|m| { let mut e = *m; e.sub = [None; 4]; (Expect::Bundles(vec![e], false), e != *m) }, "set-node:-place");
        run_rule(&mut cx, "[] > [+place]".into(), &segs, 1, &|m| (Expect::ErrOr(vec![]), true), "set-node:+place-must-error");
    }
    // 3. feature alpha pairs
    let step = ctx.pick(7, 1) as usize;
    for (f1, n1, m1) in F { for (f2, n2, m2) in F { for inv in [false, true] {
        if !mine() { continue }
        let rule = format!("[A{f1}] > [{}A{f2}]", if inv { "-" } else { "" });
        run_rule(&mut cx, rule, &segs, step, &|m| match get(m, n1) {
            None => (Expect::Bundles(vec![*m], false), false),
            Some(v) => { let val = v & m1 != 0; let mut e = *m; m_set(&mut e, n2, m2, val != inv); (Expect::Bundles(vec![e], false), true) }
        }, &format!("alpha:{f1}->{}{f2}", if inv { "-" } else { "" }));
    } } }
    // greek letters behave as latin ones (spot check of the binding itself)
    if mine() { run_rule(&mut cx, "[αvoice] > [-αnasal]".into(), &segs, 1, &|m| { let val = m.lar & 4 != 0; let mut e = *m; m_set(&mut e, 1, 16, !val); (Expect::Bundles(vec![e], false), true) }, "alpha:greek"); }
    // 4. node -> feature coercion
    for (idx, nn) in SUBNODES.iter().enumerate().map(|(i, n)| (Some(i), *n)).chain(std::iter::once((None, "place"))) { for (f2, n2, m2) in F { for inv in [false, true] {
        if !mine() { continue }
        let rule = format!("[A{nn}] > [{}A{f2}]", if inv { "-" } else { "" });
        run_rule(&mut cx, rule, &segs, step, &|m| { let val = match idx { Some(i) => m.sub[i].is_some(), None => has_place(m) }; let mut e = *m; m_set(&mut e, n2, m2, val != inv); (Expect::Bundles(vec![e], false), true) }, &format!("alpha-node-coerced:{nn}->{f2}"));
    } } }
    // 5. feature -> node and cross-node must be rejected (or not match)
    for (f1, n1, _) in F.iter().step_by(5) { for nn in SUBNODES {
        if !mine() { continue }
        let rule = format!("[A{f1}] > [A{nn}]");
        let n1 = *n1;
        run_rule(&mut cx, rule, &segs, step * 3, &|m| (Expect::ErrOr(if get(m, n1).is_none() { vec![*m] } else { vec![] }), false), "alpha-feature-to-node-must-error");
    } }
    for (i, a) in SUBNODES.iter().enumerate() { for (j, b) in SUBNODES.iter().enumerate() { if i != j && mine() {
        run_rule(&mut cx, format!("[A{a}] > [A{b}]"), &segs, step * 3, &|_m| (Expect::ErrOr(vec![]), false), "alpha-cross-node-must-error");
    } } }
    // 6. node alphas carried from a context segment: `[] > [αN] / [αM] _` on two-segment words
    let mut donors: Vec<(String, Word)> = Vec::new();
    { let mut seen = std::collections::HashSet::new(); for (t, w) in &segs { if seen.insert(*seg0(w).place) { donors.push((t.clone(), w.clone())); } } }
    if shard == 0 { cx.rep.obs("distinct_place_values", donors.len() as u64); }
    let combos: Vec<(&str, &str, Option<usize>)> = vec![("lab", "lab", Some(0)), ("cor", "cor", Some(1)), ("dor", "dor", Some(2)), ("phr", "phr", Some(3)), ("place", "place", None),
        ("place", "lab", Some(0)), ("place", "cor", Some(1)), ("place", "dor", Some(2)), ("place", "phr", Some(3))];
    for (src, dst, idx) in combos {
        let rule = format!("[] > [A{dst}] / [A{src}] _");
        let rules = match compile1(&rule) { Ok(r) => r, Err(o) => { viol(&mut cx, "alpha-node-carry:rule-rejected".into(), &rule, "", "parses".into(), o.tag()); continue } };
        for (di, (dt, dw)) in donors.iter().enumerate() {
            if !mine() { continue }
            for (ti, (tt, tw)) in donors.iter().enumerate() {
                if ctx.quick() && (di + ti) % 3 != 0 { continue }
                let (d, t) = (seg0(dw), seg0(tw));
                if d == t { continue } // would be one long segment
                let w = asca::verif::word_from_syllables(vec![crate::sw::syll(&[d, t], 0, 0)]);
                let (dm, tm) = (to_m(&d), to_m(&t));
                let mut e = tm;
                match idx { Some(i) => e.sub[i] = dm.sub[i], None => e.sub = dm.sub }
                let text = format!("{dt}{tt}");
                if e != tm { cx.rep.nontrivial_enum(1); }
                if e == dm { continue } // result would merge into a long segment: outside this law
                check_case(&mut cx, &rule, &rules, &text, &w, Expect::Bundles(vec![dm, e], false), &format!("alpha-node-carry:{src}->{dst}"));
            }
        }
    }
    // 7. random multi-feature matrices (conjunction)
    let mut rng = Rng::new(ctx.seed, 0x404 + shard as u64);
    let nm = ctx.pick(60, 600) as usize;
    for _ in 0..nm {
        let k = rng.range(2, 4);
        let mut fs: Vec<usize> = (0..26).collect(); rng.shuffle(&mut fs); fs.truncate(k);
        let pol: Vec<bool> = (0..k).map(|_| rng.chance(1, 2)).collect();
        let body: Vec<String> = fs.iter().zip(&pol).map(|(f, p)| format!("{}{}", sign(*p), F[*f].0)).collect();
        let (fs2, pol2) = (fs.clone(), pol.clone());
        run_rule(&mut cx, format!("[{}] > [+stress]", body.join(", ")), &segs, 1, &|m| { let hit = fs2.iter().zip(&pol2).all(|(f, p)| m_match(m, F[*f].1, F[*f].2, *p)); (Expect::Bundles(vec![*m], hit), hit) }, "match:conjunction");
        let (fs3, pol3) = (fs.clone(), pol.clone());
        run_rule(&mut cx, format!("[] > [{}]", body.join(", ")), &segs, 1, &|m| { let mut e = *m; for (f, p) in fs3.iter().zip(&pol3) { m_set(&mut e, F[*f].1, F[*f].2, *p); } (Expect::Bundles(vec![e], false), e != *m) }, "set:conjunction");
    }
    // 7b. a sub-node together with one of its own features (`[+lab, +round]`: the node is there afterwards and the feature has the value
    //     named), and a sub-node removed together with a feature that lives elsewhere (`[-lab, +voice]`)
    for (idx, nn) in SUBNODES.iter().enumerate() { for (fname, fnode, fmask) in F { for pos in [true, false] {
        if !mine() { continue }
        let own = fnode as usize == idx + 3;
        if own {
            run_rule(&mut cx, format!("[] > [+{nn}, {}{fname}]", sign(pos)), &segs, 2, &|m| { let mut e = *m; if e.sub[idx].is_none() { e.sub[idx] = Some(0) } m_set(&mut e, fnode, fmask, pos); (Expect::Bundles(vec![e], false), e != *m) }, &format!("set-node-and-own-feature:+{nn},{}{fname}", sign(pos)));
            run_rule(&mut cx, format!("[] > [{}{fname}, +{nn}]", sign(pos)), &segs, 2, &|m| { let mut e = *m; if e.sub[idx].is_none() { e.sub[idx] = Some(0) } m_set(&mut e, fnode, fmask, pos); (Expect::Bundles(vec![e], false), e != *m) }, &format!("set-node-and-own-feature:{}{fname},+{nn}", sign(pos)));
        } else if fnode < 3 {
            run_rule(&mut cx, format!("[] > [-{nn}, {}{fname}]", sign(pos)), &segs, 5, &|m| { let mut e = *m; e.sub[idx] = None; m_set(&mut e, fnode, fmask, pos); (Expect::Bundles(vec![e], false), e != *m) }, &format!("remove-node-and-set-elsewhere:-{nn},{}{fname}", sign(pos)));
        }
    } } }
    // 8. alphas in multi-segment words: a binding made while a segment was being rejected must not
    //    survive to the next segment. `[αF, ±G] > [(-)αH]` is context-free, so every segment is
    //    rewritten independently; `[±G] > [(-)αH] / [αF] _` takes the value from the (already rewritten)
    //    left neighbour, `/ _ [αF]` from the (not yet rewritten) right neighbour.
    let nr = ctx.pick(2500, 40000) as usize;
    let nw = ctx.pick(40, 120) as usize;
    let mut rng = Rng::new(ctx.seed, 0x408);
    for k in 0..nr {
        let (f, g, h) = (rng.below(26), rng.below(26), rng.below(26));
        let (gp, inv, shape) = (rng.chance(1, 2), rng.chance(1, 2), rng.below(6));
        let ws = rng.next();
        if k % n != shard || f == g { continue } // naming one feature twice in a matrix is not a meaningful rule
        let gtxt = format!("{}{}", sign(gp), F[g].0);
        let out = format!("[{}A{}]", if inv { "-" } else { "" }, F[h].0);
        let rule = match shape {
            0 => format!("[A{}, {gtxt}] > {out}", F[f].0),
            1 => format!("[{gtxt}, A{}] > {out}", F[f].0),
            2 => format!("[{gtxt}] > {out} / [A{}] _", F[f].0),
            3 => format!("[{gtxt}] > {out} / _ [A{}]", F[f].0),
            // two input elements that must agree in F: after a pair that does not agree, the scan goes on one segment further with
            // nothing remembered of the failed attempt
            4 => format!("[A{}] [A{}] > [{}{}] [{}{}]", F[f].0, F[f].0, sign(gp), F[h].0, sign(gp), F[h].0),
            _ => format!("[A{}, {gtxt}] [A{}] > [{}{}] [{}{}]", F[f].0, F[f].0, sign(!inv), F[h].0, sign(inv), F[h].0),
        };
        let rules = match compile1(&rule) { Ok(r) => r, Err(o) => { viol(&mut cx, "alpha-multi:rule-rejected".into(), &rule, "", "parses".into(), o.tag()); continue } };
        let mut wr = Rng::new(ws, 3);
        for _ in 0..nw {
            let len = wr.range(2, 4);
            let picks: Vec<usize> = (0..len).map(|_| wr.below(segs.len())).collect();
            let ss: Vec<Segment> = picks.iter().map(|i| seg0(&segs[*i].1)).collect();
            let cut = if wr.chance(1, 2) { wr.range(1, len - 1) } else { len };
            let mut ms: Vec<M> = ss.iter().map(to_m).collect();
            let sstart = |i: usize| i == 0 || i == cut;
            let adj = |ms: &[M]| (0..ms.len() - 1).any(|j| ms[j] == ms[j + 1] && !sstart(j + 1));
            if adj(&ms) { continue }
            let orig = ms.clone();
            let mut bad = false; let mut fired = 0;
            if shape >= 4 {
                let mut i = 0;
                while i + 1 < len {
                    let first_ok = shape == 4 || m_match(&ms[i], F[g].1, F[g].2, gp);
                    let (a, b2) = (get(&ms[i], F[f].1), get(&ms[i + 1], F[f].1));
                    let agree = match (a, b2) { (Some(x), Some(y)) => (x & F[f].2 != 0) == (y & F[f].2 != 0), _ => false };
                    if first_ok && agree {
                        let (p1, p2) = if shape == 4 { (gp, gp) } else { (!inv, inv) };
                        m_set(&mut ms[i], F[h].1, F[h].2, p1); m_set(&mut ms[i + 1], F[h].1, F[h].2, p2);
                        fired += 1; i += 2;
                        if adj(&ms) { bad = true; break }
                    } else { i += 1 }
                }
            }
            for i in 0..len {
                if shape >= 4 { break }
                if !m_match(&ms[i], F[g].1, F[g].2, gp) { continue }
                let src = match shape { 0 | 1 => Some(ms[i]), 2 => if i > 0 { Some(ms[i - 1]) } else { None }, _ => if i + 1 < len { Some(orig[i + 1]) } else { None } };
                let Some(src) = src else { continue };
                let Some(v) = get(&src, F[f].1) else { continue };
                let val = v & F[f].2 != 0;
                m_set(&mut ms[i], F[h].1, F[h].2, val != inv);
                fired += 1;
                if adj(&ms) { bad = true; break }
            }
            if bad { continue }
            let sylls = if cut < len { vec![crate::sw::syll(&ss[..cut], 0, 0), crate::sw::syll(&ss[cut..], 0, 0)] } else { vec![crate::sw::syll(&ss, 0, 0)] };
            let w = asca::verif::word_from_syllables(sylls);
            cx.rep.eval(1);
            if fired > 0 && ms != orig { cx.rep.nontrivial(hash64(&(&rule, &picks, cut))); }
            let text = picks.iter().enumerate().map(|(j, i)| format!("{}{}", if j == cut { "." } else { "" }, segs[*i].0)).collect::<String>();
            match apply(&rules, &w) {
                Applied::Ok(r) => { let got: Vec<M> = r.syllables.iter().flat_map(|s| s.segments.iter().map(to_m)).collect();
                    if got != ms { viol(&mut cx, format!("alpha-multi:shape{shape}"), &rule, &text, format!("{ms:?}"), format!("{got:?}")); }
                    else if r.syllables.len() != w.syllables.len() { viol(&mut cx, format!("alpha-multi:boundaries:shape{shape}"), &rule, &text, "same syllables".into(), crate::sw::dump(&r)); } }
                Applied::Err(e) => viol(&mut cx, format!("alpha-multi:error:shape{shape}"), &rule, &text, format!("{ms:?}"), e),
                Applied::Abort(sg) => { let (r2, t2) = (rule.clone(), text.clone()); cx.rep.abort(sg, || json!({"rule": r2, "word": t2})); }
            }
        }
    }
    rep
}

pub fn replay(_ctx: &Ctx, case: &Value) -> Report {
    // a C04 case is (rule, word); the expectation is recomputed by re-running the family the rule belongs to
    let mut rep = Report::new(RULE);
    let rule = jstr(case, "rule");
    let word = jstr(case, "word");
    if let Some(expected) = case["expected"].as_str() {
        let sig = { let s = jstr(case, "sig"); if s.is_empty() { "replay".to_string() } else { s } };
        rep.eval(1);
        let cj = || json!({"case": case.clone()});
        let rules = match compile1(&rule) { Ok(r) => r, Err(Applied::Abort(a)) => { rep.abort(a, cj); return rep } Err(o) => { let t = o.tag(); rep.violation(sig, || json!({"case": case.clone(), "observed": t})); return rep } };
        if word.is_empty() { return rep }
        let Ok(w) = parse_word(&word) else { rep.notes.push("word does not parse".into()); return rep };
        match apply(&rules, &w) {
            Applied::Ok(r) => {
                let ms: Vec<M> = r.syllables.iter().flat_map(|s| s.segments.iter().map(to_m)).collect();
                let st = r.syllables.first().map(|s| crate::sw::stress_code(s.stress) == 1).unwrap_or(false);
                let observed = if expected.contains(" stressed=") { format!("{ms:?} stressed={st}") } else { format!("{ms:?}") };
                let ok = if let Some(e) = expected.strip_prefix("Err or ") { observed == e } else if expected == "Err" { false } else if expected == "same syllables" { r.syllables.len() == w.syllables.len() } else { observed == expected };
                if !ok { rep.violation(sig, || json!({"case": case.clone(), "expected": expected, "observed": observed})); }
            }
            Applied::Err(e) => if !expected.starts_with("Err") { rep.violation(sig, || json!({"case": case.clone(), "expected": expected, "observed": e})); },
            Applied::Abort(a) => rep.abort(a, cj),
        }
        return rep;
    }
    let Ok(w) = parse_word(&word) else { rep.notes.push("word does not parse".into()); return rep };
    let segs = vec![(word.clone(), w)];
    let mut cx = Cx { rep: &mut rep, samples_left: 0 };
    // recognise the simple families by shape
    for (name, node, mask) in F { for pos in [true, false] { let s = sign(pos);
        if rule == format!("[{s}{name}] > [+stress]") { run_rule(&mut cx, rule.clone(), &segs, 1, &|m| { let hit = m_match(m, node, mask, pos); (Expect::Bundles(vec![*m], hit), hit) }, &format!("match:{s}{name}")); }
        if rule == format!("[] > [{s}{name}]") { run_rule(&mut cx, rule.clone(), &segs, 1, &|m| { let mut e = *m; m_set(&mut e, node, mask, pos); (Expect::Bundles(vec![e], false), e != *m) }, &format!("set:{s}{name}")); }
    } }
    for (f1, n1, m1) in F { for (f2, n2, m2) in F { for inv in [false, true] {
        if rule == format!("[A{f1}] > [{}A{f2}]", if inv { "-" } else { "" }) {
            run_rule(&mut cx, rule.clone(), &segs, 1, &|m| match get(m, n1) { None => (Expect::Bundles(vec![*m], false), false), Some(v) => { let val = v & m1 != 0; let mut e = *m; m_set(&mut e, n2, m2, val != inv); (Expect::Bundles(vec![e], false), true) } }, &format!("alpha:{f1}->{}{f2}", if inv { "-" } else { "" }));
        }
    } } }
    rep
}
