//! What a monitor observed: counts of executions, distinct non-trivial cases, samples,
//! event counters, aborted cases (panic / budget – verdict of C02 only) and violations
//! grouped by signature.
use serde_json::{json, Map, Value};
use std::collections::{BTreeMap, HashSet};

pub const DISTINCT_CAP: usize = 4_000_000;
const MAX_SAMPLES: usize = 12;
const MAX_SIGS: usize = 400;

#[derive(Default)]
pub struct Report {
    pub evaluations: u64,
    pub nontrivial: HashSet<u64>,
    /// non-trivial cases of an enumerated space (distinct by construction, counted exactly)
    pub nontrivial_exact: u64,
    pub samples: Vec<Value>,
    pub observed: BTreeMap<String, u64>,
    pub aborted: BTreeMap<String, (u64, Value)>,
    pub violations: BTreeMap<String, (u64, Value)>,
    pub dropped_signatures: u64,
    pub exhaustive: bool,
    pub rule: String,
    pub notes: Vec<String>,
    pub extra: Map<String, Value>,
}

impl Report {
    pub fn new(rule: &str) -> Self { Report { rule: rule.to_string(), ..Default::default() } }
    pub fn eval(&mut self, n: u64) { self.evaluations += n; }
    pub fn obs(&mut self, k: &str, n: u64) { *self.observed.entry(k.to_string()).or_insert(0) += n; }
    pub fn obs_max(&mut self, k: &str, n: u64) { let e = self.observed.entry(k.to_string()).or_insert(0); if n > *e { *e = n; } }
    pub fn nontrivial(&mut self, h: u64) { if self.nontrivial.len() < DISTINCT_CAP { self.nontrivial.insert(h); } }
    pub fn nontrivial_enum(&mut self, n: u64) { self.nontrivial_exact += n; }
    pub fn sample(&mut self, v: impl FnOnce() -> Value) { if self.samples.len() < MAX_SAMPLES { self.samples.push(v()); } }
    pub fn abort(&mut self, sig: String, case: impl FnOnce() -> Value) {
        if let Some(e) = self.aborted.get_mut(&sig) { e.0 += 1; return; }
        if self.aborted.len() < MAX_SIGS { self.aborted.insert(sig, (1, case())); }
    }
    /// `detail` must contain everything needed to replay: at least {"case": …, "expected": …, "observed": …}
    pub fn violation(&mut self, sig: String, detail: impl FnOnce() -> Value) {
        if let Some(e) = self.violations.get_mut(&sig) { e.0 += 1; return; }
        if self.violations.len() < MAX_SIGS { self.violations.insert(sig, (1, detail())); } else { self.dropped_signatures += 1; }
    }
    pub fn merge(&mut self, o: Report) {
        self.evaluations += o.evaluations;
        self.nontrivial_exact += o.nontrivial_exact;
        for h in o.nontrivial { if self.nontrivial.len() < DISTINCT_CAP { self.nontrivial.insert(h); } }
        for s in o.samples { if self.samples.len() < MAX_SAMPLES { self.samples.push(s); } }
        for (k, v) in o.observed { if k.starts_with("max_") { let e = self.observed.entry(k).or_insert(0); if v > *e { *e = v } } else { *self.observed.entry(k).or_insert(0) += v; } }
        for (k, v) in o.aborted { match self.aborted.get_mut(&k) { Some(e) => e.0 += v.0, None => { if self.aborted.len() < MAX_SIGS { self.aborted.insert(k, v); } } } }
        for (k, v) in o.violations { match self.violations.get_mut(&k) { Some(e) => e.0 += v.0, None => { if self.violations.len() < MAX_SIGS { self.violations.insert(k, v); } else { self.dropped_signatures += 1; } } } }
        self.dropped_signatures += o.dropped_signatures;
        self.exhaustive = self.exhaustive || o.exhaustive;
        if self.rule.is_empty() { self.rule = o.rule; }
        for n in o.notes { if !self.notes.contains(&n) { self.notes.push(n); } }
        for (k, v) in o.extra { self.extra.entry(k).or_insert(v); }
    }
    pub fn to_json(&self) -> Value {
        let viol: Vec<Value> = self.violations.iter().map(|(s, (n, d))| json!({"signature": s, "count": n, "detail": d})).collect();
        let ab: Vec<Value> = self.aborted.iter().map(|(s, (n, d))| json!({"signature": s, "count": n, "first": d})).collect();
        json!({
            "evaluations": self.evaluations,
            "distinct_nontrivial": self.nontrivial.len() as u64 + self.nontrivial_exact,
            "rule": self.rule,
            "samples": self.samples,
            "observed": self.observed,
            "aborted": ab,
            "violations": viol,
            "dropped_signatures": self.dropped_signatures,
            "exhaustive": self.exhaustive,
            "notes": self.notes,
            "extra": self.extra,
        })
    }
}
