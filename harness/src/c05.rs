//! C05 – stress, length and tone modifiers follow the manual's three-way tables.
//! Oracle: a small table model written from doc.md ("Suprasegmental Features").
use crate::{report::Report, run::*, sw, util::*, Ctx};
use asca::verif::{word_from_syllables, Word};
use asca::Segment;
use serde_json::{json, Value};

const RULE: &str = "36 states (length 1..3 x unstressed/primary/secondary x tone 0/5/51/1234) x 404 non-empty combinations of {absent,+,-} over long/overlong/stress/sec.stress and tone absent or one of 4 values, as input modifier on IPA `a:[..]`, group `V:[..]`, matrix `[+low,..]` and `%:[..]` (stress/tone only) and as output matrix after inputs `a`, `V`, `[+low]`, `%`; target first, middle and last in its syllable; exhaustive. Non-trivial = the modifier matched (matcher) or changed the state (setter); cases are distinct by construction.";

const TONES: [u16; 4] = [0, 5, 51, 1234];
type Tri = Option<bool>;
#[derive(Clone, Copy, Debug, PartialEq)]
pub struct Mods { long: Tri, over: Tri, stress: Tri, sec: Tri, tone: Option<u16> }

impl Mods {
    fn text(&self) -> String {
        let mut p = Vec::new();
        for (v, n) in [(self.long, "long"), (self.over, "overlong"), (self.stress, "stress"), (self.sec, "sec.stress")] {
            if let Some(b) = v { p.push(format!("{}{n}", if b { '+' } else { '-' })); }
        }
        if let Some(t) = self.tone { p.push(format!("tone:{t}")); }
        p.join(", ")
    }
    fn has_len(&self) -> bool { self.long.is_some() || self.over.is_some() }
}

fn all_mods(syll_only: bool) -> Vec<Mods> {
    let tri = [None, Some(true), Some(false)];
    let mut v = Vec::new();
    for long in tri { for over in tri { for stress in tri { for sec in tri {
        if syll_only && (long.is_some() || over.is_some()) { continue }
        for tone in std::iter::once(None).chain(TONES.iter().map(|t| Some(*t))) {
            let m = Mods { long, over, stress, sec, tone };
            if m == (Mods { long: None, over: None, stress: None, sec: None, tone: None }) { continue }
            v.push(m);
        }
    } } } }
    v
}

// --- the table model (state = (length, stress code 0/1/2, tone))
fn match_model(m: &Mods, l: usize, s: u8, t: u16) -> bool {
    if m.long == Some(true) && l < 2 { return false }
    if m.long == Some(false) && l > 1 { return false }
    if m.over == Some(true) && l < 3 { return false }
    if m.over == Some(false) && l > 2 { return false }
    if m.stress == Some(true) && s == 0 { return false }
    if m.stress == Some(false) && s != 0 { return false }
    if m.sec == Some(true) && s != 2 { return false }
    if m.sec == Some(false) && s == 2 { return false }
    if let Some(tn) = m.tone { if tn != t { return false } }
    true
}
fn contradictory(m: &Mods) -> bool { (m.long == Some(false) && m.over == Some(true)) || (m.stress == Some(false) && m.sec == Some(true)) }

/// None = the manual calls this combination an error
fn set_model(m: &Mods, l: usize, s: u8, t: u16) -> Option<(usize, u8, u16)> {
    if contradictory(m) { return None }
    let mut allowed = vec![1usize, 2, 3];
    if m.long == Some(true) { allowed.retain(|x| *x >= 2) }
    if m.long == Some(false) { allowed.retain(|x| *x == 1) }
    if m.over == Some(true) { allowed.retain(|x| *x == 3) }
    if m.over == Some(false) { allowed.retain(|x| *x <= 2) }
    let nl = if allowed.contains(&l) { l } else { *allowed.iter().min_by_key(|x| (**x as i32 - l as i32).abs()).unwrap() };
    let ns = match (m.stress, m.sec) {
        (None, None) => s,
        (None, Some(true)) => 2,
        (None, Some(false)) => if s == 2 { 0 } else { s },
        (Some(true), None) => 1,
        (Some(false), None) => 0,
        (Some(true), Some(true)) => 2,
        (Some(true), Some(false)) => 1,
        (Some(false), Some(false)) => 0,
        (Some(false), Some(true)) => unreachable!(),
    };
    Some((nl, ns, m.tone.unwrap_or(t)))
}

struct Inv { a: Segment, a_nas: Segment, p: Segment, t: Segment, n: Segment, s: Segment }
fn inventory() -> Inv {
    let g = |x: &str| parse_word(x).ok().expect("inventory parses").syllables[0].segments[0];
    Inv { a: g("a"), a_nas: g("ã"), p: g("p"), t: g("t"), n: g("n"), s: g("s") }
}

/// target vowel `v` of length `l` at `posn` (0 first, 1 middle, 2 last) in a syllable with stress/tone,
/// flanked by the syllables `n` and `s` unless `solo`.
fn word(inv: &Inv, v: Segment, l: usize, s: u8, t: u16, posn: u8, solo: bool) -> Word {
    let mut core: Vec<Segment> = Vec::new();
    if posn != 0 { core.push(inv.p) }
    for _ in 0..l { core.push(v) }
    if posn != 2 { core.push(inv.t) }
    let mid = sw::syll(&core, s, t);
    if solo { word_from_syllables(vec![mid]) } else { word_from_syllables(vec![sw::syll(&[inv.n], 0, 0), mid, sw::syll(&[inv.s], 0, 0)]) }
}

fn states() -> Vec<(usize, u8, u16, u8)> {
    let mut v = Vec::new();
    for l in 1..=3 { for s in 0..3u8 { for t in TONES { for posn in 0..3u8 { v.push((l, s, t, posn)); } } } }
    v
}

/// `key` = the case in the form the replay takes (check, kind, mods, state); it is merged into every witness
fn judge(rep: &mut Report, sig: String, rule: &str, w: &Word, expected: Option<Word>, accept_err: bool, nontrivial: bool, key: &Value) {
    rep.eval(1);
    if nontrivial { rep.nontrivial_enum(1); }
    let rules = match compile1(rule) {
        Ok(r) => r,
        Err(Applied::Err(k)) => { if !accept_err && expected.is_some() { let r = rule.to_string(); rep.violation(format!("{sig}:rule-rejected"), || { let mut c = key.clone(); c["rule"] = json!(r); c["word"] = json!(sw::render(w)); json!({"case": c, "expected": "rule parses", "observed": k}) }); } return }
        Err(o) => { let r = rule.to_string(); rep.abort(o.tag(), || json!({"rule": r})); return }
    };
    let got = apply(&rules, w);
    let case = || { let mut c = key.clone(); c["rule"] = json!(rule); c["word"] = json!(sw::render(w)); c["word_struct"] = json!(sw::dump(w)); c };
    match (&expected, got) {
        (Some(e), Applied::Ok(g)) => if g != *e { rep.violation(sig, || json!({"case": case(), "expected": sw::dump_json(e), "observed": sw::dump_json(&g)})); },
        (None, Applied::Ok(g)) => rep.violation(format!("{sig}:contradiction-not-reported"), || json!({"case": case(), "expected": "Err", "observed": sw::dump_json(&g)})),
        (_, Applied::Err(k)) => if !(accept_err || expected.is_none()) { rep.violation(format!("{sig}:unexpected-error"), || json!({"case": case(), "expected": expected.as_ref().map(sw::dump_json), "observed": k})); },
        (_, Applied::Abort(s)) => rep.abort(s, case),
    }
}

fn st_name(l: usize, s: u8) -> String { format!("L{l}{}", ["U", "P", "S"][s as usize]) }

fn one(rep: &mut Report, inv: &Inv, check: &str, kind: &str, m: &Mods, st: (usize, u8, u16, u8)) {
    let (l, s, t, posn) = st;
    let ms = m.text();
    let mut mj = serde_json::Map::new();
    for (v, n) in [(m.long, "long"), (m.over, "over"), (m.stress, "stress"), (m.sec, "sec")] { if let Some(b) = v { mj.insert(n.into(), json!(b)); } }
    if let Some(tn) = m.tone { mj.insert("tone".into(), json!(tn)); }
    let key = json!({"check": check, "kind": kind, "mods": mj, "state": [l, s, t, posn]});
    let solo = kind == "syl";
    let w = word(inv, inv.a, l, s, t, posn, solo);
    if check == "match" {
        let rule = match kind { "ipa" => format!("a:[{ms}] > [+nasal]"), "grp" => format!("V:[{ms}] > [+nasal]"), "mat" => format!("[+low, {ms}] > [+nasal]"), _ => format!("%:[{ms}] > [tone: 9]") };
        let hit = match_model(m, l, s, t);
        let e = if !hit { w.clone() } else if solo { word(inv, inv.a, l, s, 9, posn, true) } else { word(inv, inv.a_nas, l, s, t, posn, false) };
        let sig = format!("match:{kind}:[{ms}]:{}", st_name(l, s));
        // a contradictory matcher may either match nothing or be reported as an error
        judge(rep, sig, &rule, &w, Some(e), contradictory(m), hit, &key);
    } else {
        let rule = match kind { "ipa" => format!("a > [{ms}]"), "grp" => format!("V > [{ms}]"), "mat" => format!("[+low] > [{ms}]"), _ => format!("% > [{ms}]") };
        let exp = set_model(m, l, s, t);
        let e = exp.map(|(nl, ns, nt)| word(inv, inv.a, nl, ns, nt, posn, solo));
        let changed = exp.map(|x| x != (l, s, t)).unwrap_or(true);
        let sig = format!("set:{kind}:[{ms}]:{}", st_name(l, s));
        judge(rep, sig, &rule, &w, e, false, changed, &key);
    }
}

pub fn explore(_ctx: &Ctx, shard: usize, n: usize) -> Report {
    let mut rep = Report::new(RULE);
    rep.exhaustive = true;
    let inv = inventory();
    let sts = states();
    let mut job = 0usize;
    for check in ["match", "set"] { for kind in ["ipa", "grp", "mat", "syl"] {
        for m in all_mods(kind == "syl") {
            job += 1;
            if (job - 1) % n != shard { continue }
            for st in &sts { one(&mut rep, &inv, check, kind, &m, *st); }
            if job % 97 == 1 { let (k2, m2) = (kind.to_string(), m.text()); rep.sample(|| json!({"check": check, "element_kind": k2, "modifiers": m2, "states": "all 36 x 3 positions", "example_word": sw::render(&word(&inv, inv.a, 2, 2, 51, 1, kind == "syl"))})); }
        }
    } }
    rep
}

pub fn replay(_ctx: &Ctx, case: &Value) -> Report {
    // witness format: {"check","kind","mods":{long,over,stress,sec,tone},"state":[l,s,t,posn]}
    let mut rep = Report::new(RULE);
    let inv = inventory();
    let tri = |k: &str| case["mods"].get(k).and_then(|x| x.as_bool());
    let m = Mods { long: tri("long"), over: tri("over"), stress: tri("stress"), sec: tri("sec"), tone: case["mods"].get("tone").and_then(|x| x.as_u64()).map(|x| x as u16) };
    let st = &case["state"];
    let st = (st[0].as_u64().unwrap_or(1) as usize, st[1].as_u64().unwrap_or(0) as u8, st[2].as_u64().unwrap_or(0) as u16, st[3].as_u64().unwrap_or(1) as u8);
    one(&mut rep, &inv, &jstr(case, "check"), &jstr(case, "kind"), &m, st);
    rep
}
