//! Shared helpers for the CLI monitors (C19, C20): running the `asca` binary in a scratch directory under a
//! step budget and a wall-clock watchdog, and a generator of project models with their file serialisations.
use crate::gen::*;
use crate::util::Rng;
use asca::RuleGroup;
use std::path::{Path, PathBuf};
use std::process::{Command, Stdio};

pub struct Ran { pub code: Option<i32>, pub stdout: String, pub stderr: String, pub timed_out: bool }

pub fn asca_bin() -> String { std::env::var("ASCA_BIN").unwrap_or_else(|_| "asca".into()) }

/// runs the binary with cwd = `dir`; stdin is /dev/null; wall clock is only a watchdog (20 s)
pub fn run_asca(dir: &Path, args: &[&str]) -> Ran {
    let child = Command::new(asca_bin()).args(args).current_dir(dir).env("ASCA_VERIF_BUDGET", "200000000").env("NO_COLOR", "1").env("CLICOLOR", "0")
        .stdin(Stdio::null()).stdout(Stdio::piped()).stderr(Stdio::piped()).spawn();
    let Ok(mut child) = child else { return Ran { code: None, stdout: String::new(), stderr: "spawn failed".into(), timed_out: false } };
    let t0 = std::time::Instant::now();
    loop {
        match child.try_wait() {
            Ok(Some(_)) => break,
            Ok(None) => { if t0.elapsed().as_secs() > 20 { let _ = child.kill(); let _ = child.wait(); return Ran { code: None, stdout: String::new(), stderr: String::new(), timed_out: true } } std::thread::sleep(std::time::Duration::from_millis(2)); }
            Err(_) => break,
        }
    }
    match child.wait_with_output() {
        Ok(o) => Ran { code: o.status.code(), stdout: strip_ansi(&String::from_utf8_lossy(&o.stdout)), stderr: strip_ansi(&String::from_utf8_lossy(&o.stderr)), timed_out: false },
        Err(e) => Ran { code: None, stdout: String::new(), stderr: e.to_string(), timed_out: false },
    }
}

pub fn strip_ansi(s: &str) -> String {
    let mut out = String::new(); let mut it = s.chars().peekable();
    while let Some(c) = it.next() { if c == '\u{1b}' { if it.peek() == Some(&'[') { it.next(); for d in it.by_ref() { if d.is_ascii_alphabetic() { break } } } } else { out.push(c) } }
    out
}

pub fn scratch(tag: &str, shard: usize, i: u64) -> PathBuf {
    let d = std::env::current_dir().unwrap_or_else(|_| PathBuf::from(".")).join(format!("{tag}-{}-{shard}", std::process::id())).join(format!("case{i}"));
    let _ = std::fs::remove_dir_all(&d);
    let _ = std::fs::create_dir_all(&d);
    d
}
pub fn cleanup(d: &Path) { let _ = std::fs::remove_dir_all(d); }
pub fn cleanup_root(tag: &str, shard: usize) { let d = std::env::current_dir().unwrap_or_else(|_| PathBuf::from(".")).join(format!("{tag}-{}-{shard}", std::process::id())); let _ = std::fs::remove_dir_all(d); }

// ------------------------------------------------------------------ project model
#[derive(Clone)]
pub struct Project { pub groups: Vec<RuleGroup>, pub words: Vec<(String, String)> /* (word, comment) */, pub into: Vec<String>, pub from: Vec<String> }

const SAFE_RULES: [&str; 16] = ["a > e / _#", "p > b / V_V", "V > [+nasal] / _N", "t > * / _#", "* > ə / #_s", "$ > * / V_V", "C=1 V=2 > 2 1 / #_", "[+voice] > [-voice] | _#", "%:[+stress] > [-stress]", "n > m / _{p,b}", "s > ʃ / _i ;; palatalisation",
    "k > t͡ʃ / _[+front]", "V:[+long] > [-long]", "e, o > i, u / _C#", "[+cons, -son] > [+voice] / V_V", "r...l > &"];
// (the non-ASCII ones have simple one-to-one case mappings: names are compared case-insensitively by `seq` filters)
const NAME_PARTS: [&str; 21] = ["@handle", "final a > @", "C# minor", "t@",
    "Grimm's Law", "Umlaut", "final devoicing", "Step", "Cluster Simplification", "Hap(lo)logy", "Great Vowel Shift", "i-mutation", "Palatalisation #2", "syncope", "LENITION", "a > e",
    "Ö-Umlaut", "Ægir's Law", "Ñ-shift", "Žeta Ω", "Ябло́ко É"];
const DESC_LINES: [&str; 8] = ["Voiceless plosives become fricatives", "see Ringe 2006: 93", "- note: ordered before umlaut", "only in unstressed syllables!", "x > y / _z", "TODO", "(regular)", "Chain shift of the three series"];

pub fn rand_group(r: &mut Rng, idx: usize, unique: bool) -> RuleGroup {
    let mut name = r.pick(&NAME_PARTS).to_string();
    // (the number goes in front of a name that ends in `@`, so that the name still ends in it)
    if unique || r.chance(1, 2) { name = if name.ends_with('@') { format!("{idx} {name}") } else { format!("{name} {idx}") } }
    let nr = r.below(5);
    let mut rules = Vec::new();
    for _ in 0..nr {
        let x = if r.chance(2, 3) { r.pick(&SAFE_RULES).to_string() } else { let t = plain(&rand_rule(r, &RuleCfg { max_side: 2, ..RuleCfg::default() })); if crate::run::compile1(&t).is_ok() && !t.starts_with('#') && !t.starts_with('@') { t } else { r.pick(&SAFE_RULES).to_string() } };
        rules.push(x.trim().to_string());
    }
    let nd = r.below(4);
    let mut desc: Vec<String> = (0..nd).map(|i| if i > 0 && r.chance(1, 6) { String::new() } else { r.pick(&DESC_LINES).to_string() }).collect();
    while desc.last().map(|l| l.is_empty()).unwrap_or(false) { desc.pop(); }
    RuleGroup::from(name, rules, desc.join("\n"))
}

pub fn rand_project(r: &mut Rng, round_trip_safe: bool) -> Project {
    let groups = (0..r.range(1, 6)).map(|i| rand_group(r, i, false)).collect();
    let nw = r.range(1, 30);
    let mut words: Vec<(String, String)> = Vec::new();
    for _ in 0..nw {
        match r.below(10) {
            0 if !round_trip_safe => words.push((String::new(), String::new())),
            1 if !round_trip_safe => words.push((String::new(), "a comment-only line".into())),
            2 => words.push((rand_word(r, &WordCfg::default()), if round_trip_safe { String::new() } else { ["gloss: 'water'", "see note #2", "# doubled marker", "a > e ;; not a rule", "x # y # z"][r.below(5)].into() })),
            3 if !round_trip_safe => words.push((String::new(), "## section heading ##".into())),
            4 => words.push((format!("{} {}", rand_word(r, &WordCfg::default()), rand_word(r, &WordCfg::default())), String::new())),   // a phrase
            _ => words.push((rand_word(r, &WordCfg::default()), String::new())),
        }
    }
    if words.iter().all(|w| w.0.is_empty()) { words.push((rand_word(r, &WordCfg::default()), String::new())); }
    if round_trip_safe { while words.last().map(|w| w.0.is_empty()).unwrap_or(false) { words.pop(); } }
    let (mut into, mut from) = (Vec::new(), Vec::new());
    if r.chance(1, 2) {
        if r.chance(2, 3) { into = vec!["Ж > ʒ".to_string(), "ш > ʃ:[+long]".to_string(), "ДЖ > d͡ʒ".to_string()][..r.range(1, 3)].to_vec(); }
        // a line that begins with a named escape (as in the shipped pie.alias), anywhere in the section; and words that use the aliases
        if !into.is_empty() && r.chance(1, 2) { let k = r.below(into.len() + 1); into.insert(k, "@{acute} > [+stress]".to_string()); }
        if !into.is_empty() { for w in words.iter_mut() { if !w.0.is_empty() && r.chance(1, 6) { w.0 = format!("{}Жa", w.0); } } }
        if r.chance(2, 3) { from = vec!["ʃ > sh".to_string(), "V:[+long] > +@{macron}".to_string(), "$ > *".to_string(), "ŋ > ng".to_string()][..r.range(1, 4)].to_vec(); }
    }
    Project { groups, words, into, from }
}

impl Project {
    pub fn word_list(&self) -> Vec<String> { self.words.iter().map(|w| w.0.clone()).collect() }
    pub fn rsca(&self, r: &mut Rng) -> String { rsca_text(&self.groups, r) }
    pub fn wsca(&self, r: &mut Rng) -> String {
        let nl = if r.chance(1, 4) { "\r\n" } else { "\n" };
        self.words.iter().map(|(w, c)| if c.is_empty() { w.clone() } else if w.is_empty() { format!("# {c}") } else { format!("{w}{}# {c}", " ".repeat(r.range(1, 6))) }).collect::<Vec<_>>().join(nl) + if self.words.last().map(|w| w.0.is_empty() && w.1.is_empty()).unwrap_or(false) || r.chance(1, 2) { nl } else { "" } // (a blank last line only exists if it is terminated)
    }
    pub fn alias(&self, r: &mut Rng) -> String {
        // the two sections in either order, an empty one sometimes left out, comment lines inside a section, LF or CRLF
        let ind = " ".repeat(r.below(6));
        let mut s = String::new();
        if r.chance(1, 3) { s += "# aliases of the project\n" }
        let section = |r: &mut Rng, tag: &str, v: &[String]| -> String { if v.is_empty() && r.chance(1, 2) { return String::new() } let mut t = format!("{tag}\n"); for a in v { if r.chance(1, 8) { t += &format!("{ind}# a note\n") } t += &format!("{ind}{a}\n") } t };
        let (a, b) = (section(r, "@into", &self.into), section(r, "@from", &self.from));
        s += &if r.chance(1, 3) { format!("{b}{a}") } else { format!("{a}{b}") };
        if r.chance(1, 5) { s = s.replace('\n', "\r\n") }
        s
    }
    pub fn json(&self) -> serde_json::Value {
        serde_json::json!({"into": self.into, "from": self.from, "words": self.word_list(), "rules": self.groups.iter().map(|g| serde_json::json!({"name": g.name, "rule": g.rule, "description": g.description})).collect::<Vec<_>>()})
    }
}

/// `.rsca` text of the groups with cosmetic variation (indentation, blank lines between rules, CRLF)
pub fn rsca_text(groups: &[RuleGroup], r: &mut Rng) -> String {
    let nl = if r.chance(1, 4) { "\r\n" } else { "\n" };
    let mut s = String::new();
    for g in groups {
        s += &format!("@{}{}{nl}", if r.chance(2, 3) { " " } else { "" }, g.name);
        let ind = if r.chance(1, 5) { "\t".to_string() } else { " ".repeat(r.below(9)) };
        for (i, rule) in g.rule.iter().enumerate() { if i > 0 && r.chance(1, 5) { s += nl } s += &format!("{ind}{rule}{nl}"); }
        if !g.description.is_empty() { for d in g.description.split('\n') { s += &format!("#{}{d}{nl}", if r.chance(2, 3) { " " } else { "" }); } }
        if r.chance(1, 2) { s += nl }
    }
    s
}
