//! C03 – a basic sound change rewrites exactly the positions its environment selects.
//! Oracle: an independent left-to-right reference interpreter over raw feature bundles,
//! written from doc.md (contexts: left neighbours as already rewritten, right neighbours as yet
//! unrewritten; `#` = no segment there; `$` = syllable edge incl. word edges; neither consumes).
use crate::c04::{m_match, m_set, to_m, F, M};
use crate::{report::Report, run::*, sw, util::*, Ctx};
use asca::verif::{word_from_syllables, Word};
use asca::Segment;
use serde_json::{json, Value};

const RULE: &str = "basic-fragment rules (input = IPA | matrix | group | set; output = IPA | feature change; context / exception sides of up to 2 elements from {IPA, matrix, group, set, $, #-at-the-periphery}; environment sets of two) over the inventory {p t k s n a i u}: every input x output x single environment with sides of length <= 1 (+ an adjoining boundary) as context-only and as exception-only rule (89 100 rules, all of them on every word of < L segments and a seeded 1/16 (quick) or 1/4 (thorough) of them on every word of L segments), plus a seeded sample of rules with sides of length <= 2, context AND exception, and environment sets; applied to every word of <= L segments in every syllabification (L = 3 exhaustive rules / 4 sampled rules in quick, 4 / 5 in thorough) carrying a stress/tone pattern, discarding cases in which two equal segments are adjacent inside a syllable at any stage. Non-trivial = the rule rewrote >= 1 position AND rejected >= 1 input-matching position because of context/exception; distinct = distinct (rule, word).";

const INV: [&str; 8] = ["p", "t", "k", "s", "n", "a", "i", "u"];

#[derive(Clone, Debug, PartialEq)]
pub enum El { Ipa(usize /*index into segs table*/), Mat(Vec<(usize, bool)>), Grp(char), Set(Vec<El>), SyllB, WordB }

fn group_feats(c: char) -> Vec<(&'static str, bool)> {
    match c { // copied from doc.md "Groupings"
        'C' => vec![("syll", false)],
        'O' => vec![("cons", true), ("son", false), ("syll", false)],
        'S' => vec![("cons", true), ("son", true), ("syll", false)],
        'P' => vec![("cons", true), ("son", false), ("syll", false), ("delrel", false), ("cont", false)],
        'F' => vec![("cons", true), ("son", false), ("syll", false), ("approx", false), ("cont", true)],
        'L' => vec![("cons", true), ("son", true), ("syll", false), ("approx", true)],
        'N' => vec![("cons", true), ("son", true), ("syll", false), ("approx", false), ("nasal", true)],
        'G' => vec![("cons", false), ("son", true), ("syll", false)],
        'V' => vec![("cons", false), ("son", true), ("syll", true)],
        _ => unreachable!(),
    }
}
pub fn fidx(name: &str) -> usize { F.iter().position(|f| f.0 == name).unwrap() }
fn feat_match(m: &M, f: usize, pos: bool) -> bool { m_match(m, F[f].1, F[f].2, pos) }

pub struct Tab { pub names: Vec<String>, pub segs: Vec<Segment>, pub ms: Vec<M> }
impl Tab {
    pub fn new(extra: &[&str]) -> Tab {
        let mut names: Vec<String> = INV.iter().map(|s| s.to_string()).collect();
        names.extend(extra.iter().map(|s| s.to_string()));
        let segs: Vec<Segment> = names.iter().map(|t| parse_word(t).ok().expect("inventory parses").syllables[0].segments[0]).collect();
        let ms = segs.iter().map(to_m).collect();
        Tab { names, segs, ms }
    }
}

fn el_match(tab: &Tab, e: &El, m: &M) -> bool {
    match e {
        El::Ipa(i) => tab.ms[*i] == *m,
        El::Mat(fs) => fs.iter().all(|(f, p)| feat_match(m, *f, *p)),
        El::Grp(c) => group_feats(*c).iter().all(|(n, p)| feat_match(m, fidx(n), *p)),
        El::Set(v) => v.iter().any(|x| el_match(tab, x, m)),
        _ => unreachable!(),
    }
}
fn el_text(tab: &Tab, e: &El) -> String {
    match e {
        El::Ipa(i) => tab.names[*i].clone(),
        El::Mat(fs) => format!("[{}]", fs.iter().map(|(f, p)| format!("{}{}", if *p { '+' } else { '-' }, F[*f].0)).collect::<Vec<_>>().join(", ")),
        El::Grp(c) => c.to_string(),
        El::Set(v) => format!("{{{}}}", v.iter().map(|x| el_text(tab, x)).collect::<Vec<_>>().join(", ")),
        El::SyllB => "$".into(), El::WordB => "#".into(),
    }
}
fn el_shape(e: &El) -> char { match e { El::Ipa(_) => 'i', El::Mat(_) => 'm', El::Grp(_) => 'g', El::Set(_) => 's', El::SyllB => '$', El::WordB => '#' } }

pub type Env = (Vec<El>, Vec<El>);
#[derive(Clone, Debug)]
pub struct BRule { pub inp: El, pub out: El, pub ctx: Option<Vec<Env>>, pub exc: Option<Vec<Env>> }

fn env_text(tab: &Tab, e: &Env) -> String {
    format!("{} _ {}", e.0.iter().map(|x| el_text(tab, x)).collect::<Vec<_>>().join(" "), e.1.iter().map(|x| el_text(tab, x)).collect::<Vec<_>>().join(" ")).trim().to_string()
}
fn envs_text(tab: &Tab, v: &[Env]) -> String {
    if v.len() == 1 { env_text(tab, &v[0]) } else { format!(":{{ {} }}:", v.iter().map(|e| env_text(tab, e)).collect::<Vec<_>>().join(", ")) }
}
pub fn rule_text(tab: &Tab, r: &BRule) -> String {
    let mut s = format!("{} > {}", el_text(tab, &r.inp), el_text(tab, &r.out));
    if let Some(c) = &r.ctx { s += &format!(" / {}", envs_text(tab, c)); }
    if let Some(c) = &r.exc { s += &format!(" | {}", envs_text(tab, c)); }
    s
}
fn envs_shape(v: &Option<Vec<Env>>) -> String {
    match v { None => "-".into(), Some(es) => es.iter().map(|(b, a)| format!("{}_{}", b.iter().map(el_shape).collect::<String>(), a.iter().map(el_shape).collect::<String>())).collect::<Vec<_>>().join(",") }
}
fn rule_shape(r: &BRule) -> String { format!("{}>{} /{} |{}", el_shape(&r.inp), el_shape(&r.out), envs_shape(&r.ctx), envs_shape(&r.exc)) }

// ------------------------------------------------------------------ reference interpreter
fn m_after(tab: &Tab, els: &[El], cur: &[M], sstart: &[bool], i: usize) -> bool {
    let n = cur.len(); let mut p = i + 1;
    for e in els {
        match e {
            El::WordB => if p != n { return false },
            El::SyllB => if !(p == n || sstart[p]) { return false },
            _ => { if p >= n || !el_match(tab, e, &cur[p]) { return false } p += 1; }
        }
    }
    true
}
fn m_before(tab: &Tab, els: &[El], cur: &[M], sstart: &[bool], i: usize) -> bool {
    let mut p = i as isize - 1;
    for e in els.iter().rev() {
        match e {
            El::WordB => if p >= 0 { return false },
            El::SyllB => if !(p < 0 || sstart[(p + 1) as usize]) { return false },
            _ => { if p < 0 || !el_match(tab, e, &cur[p as usize]) { return false } p -= 1; }
        }
    }
    true
}
fn envs_match(tab: &Tab, envs: &[Env], cur: &[M], sstart: &[bool], i: usize) -> bool {
    envs.iter().any(|(b, a)| m_before(tab, b, cur, sstart, i) && m_after(tab, a, cur, sstart, i))
}
fn adj_equal(cur: &[M], sstart: &[bool]) -> bool { (0..cur.len().saturating_sub(1)).any(|j| cur[j] == cur[j + 1] && !sstart[j + 1]) }
fn apply_out(tab: &Tab, out: &El, m: &M) -> M {
    match out {
        El::Ipa(i) => tab.ms[*i],
        El::Mat(fs) => { let mut e = *m; for (f, p) in fs { m_set(&mut e, F[*f].1, F[*f].2, *p); } e }
        _ => unreachable!(),
    }
}
/// None = case outside the property (equal neighbours inside a syllable at some stage)
/// Some((result, rewrote, rejected))
pub fn reference(tab: &Tab, r: &BRule, word: &[Vec<M>]) -> Option<(Vec<M>, usize, usize)> {
    let mut cur: Vec<M> = Vec::new(); let mut sstart: Vec<bool> = Vec::new();
    for s in word { for (k, m) in s.iter().enumerate() { cur.push(*m); sstart.push(k == 0); } }
    if adj_equal(&cur, &sstart) { return None }
    let (mut rewrote, mut rejected) = (0, 0);
    for i in 0..cur.len() {
        if !el_match(tab, &r.inp, &cur[i]) { continue }
        if let Some(c) = &r.ctx { if !envs_match(tab, c, &cur, &sstart, i) { rejected += 1; continue } }
        if let Some(c) = &r.exc { if envs_match(tab, c, &cur, &sstart, i) { rejected += 1; continue } }
        cur[i] = apply_out(tab, &r.out, &cur[i]);
        rewrote += 1;
        if adj_equal(&cur, &sstart) { return None }
    }
    Some((cur, rewrote, rejected))
}

// ------------------------------------------------------------------ workload
fn elems() -> Vec<El> {
    let f = fidx;
    vec![El::Ipa(0), El::Ipa(5), El::Ipa(4), El::Grp('V'), El::Grp('C'), El::Grp('O'), El::Mat(vec![(f("voice"), true)]), El::Mat(vec![(f("cont"), false), (f("syll"), false)]),
         El::Mat(vec![(f("hi"), true)]), El::Set(vec![El::Ipa(1), El::Ipa(6)]), El::Set(vec![El::Grp('V'), El::Ipa(4)])]
}
// outputs: e o x m are outside the inventory (8..11), t is inside it
const EXTRA: [&str; 4] = ["e", "o", "x", "m"];
fn outputs() -> Vec<El> {
    let f = fidx;
    vec![El::Ipa(8), El::Ipa(10), El::Ipa(1), El::Mat(vec![(f("voice"), true)]), El::Mat(vec![(f("nasal"), true)]), El::Mat(vec![(f("hi"), false), (f("lo"), true)])]
}
fn sides1(els: &[El], before: bool) -> Vec<Vec<El>> {
    let mut v: Vec<Vec<El>> = vec![vec![], vec![El::WordB], vec![El::SyllB]];
    for e in els { v.push(vec![e.clone()]); }
    // `$ X` / `X $` and `# X` / `X #`: one segment plus a boundary (the boundary does not count as length)
    for e in els.iter().take(4) {
        if before { v.push(vec![El::SyllB, e.clone()]); v.push(vec![El::WordB, e.clone()]); v.push(vec![e.clone(), El::SyllB]); }
        else { v.push(vec![e.clone(), El::SyllB]); v.push(vec![e.clone(), El::WordB]); v.push(vec![El::SyllB, e.clone()]); }
    }
    v
}
fn rand_side(rng: &mut Rng, els: &[El], before: bool, maxn: usize) -> Vec<El> {
    let n = rng.below(maxn + 1);
    let mut v = Vec::new();
    for _ in 0..n { if rng.chance(1, 5) { v.push(El::SyllB) } else { v.push(rng.pick(els).clone()) } }
    if rng.chance(1, 5) { if before { v.insert(0, El::WordB) } else { v.push(El::WordB) } }
    v
}
fn rand_env(rng: &mut Rng, els: &[El], maxn: usize) -> Env { loop { let e = (rand_side(rng, els, true, maxn), rand_side(rng, els, false, maxn)); if !e.0.is_empty() || !e.1.is_empty() { return e } } }
fn rand_envs(rng: &mut Rng, els: &[El], maxn: usize) -> Vec<Env> { if rng.chance(3, 4) { vec![rand_env(rng, els, maxn)] } else { vec![rand_env(rng, els, maxn), rand_env(rng, els, maxn)] } }

/// all words of exactly `len` segments over the inventory in every syllabification, as index lists
fn words_of_len(len: usize) -> Vec<Vec<Vec<usize>>> {
    let mut out = Vec::new();
    let n = INV.len();
    let total = n.pow(len as u32);
    for code in 0..total {
        let mut seq = Vec::with_capacity(len); let mut c = code;
        for _ in 0..len { seq.push(c % n); c /= n; }
        for cuts in 0..(1usize << (len - 1)) {
            let mut sy: Vec<Vec<usize>> = vec![vec![seq[0]]];
            for j in 1..len { if cuts >> (j - 1) & 1 == 1 { sy.push(vec![seq[j]]) } else { sy.last_mut().unwrap().push(seq[j]) } }
            out.push(sy);
        }
    }
    out
}

struct Case<'a> { tab: &'a Tab, rule: &'a BRule, text: &'a str, shape: &'a str }

fn supra_for(h: u64, k: usize) -> (u8, u16) { let x = (h >> (k * 5)) & 31; ((x % 3) as u8, [0u16, 0, 5, 51, 1234, 0, 3, 214][(x / 3 % 8) as usize]) }

fn run_case(rep: &mut Report, c: &Case, rules: &asca::verif::ParsedRules, sy: &[Vec<usize>]) {
    let wm: Vec<Vec<M>> = sy.iter().map(|s| s.iter().map(|i| c.tab.ms[*i]).collect()).collect();
    let Some((exp, rewrote, rejected)) = reference(c.tab, c.rule, &wm) else { rep.obs("discarded_equal_neighbours", 1); return };
    let h = hash64(&(c.text, sy));
    let sylls: Vec<_> = sy.iter().enumerate().map(|(k, s)| { let (st, tn) = supra_for(h, k); sw::syll(&s.iter().map(|i| c.tab.segs[*i]).collect::<Vec<_>>(), st, tn) }).collect();
    let w = word_from_syllables(sylls);
    rep.eval(1);
    if rewrote > 0 { rep.obs("cases_rewriting", 1); }
    if rewrote > 0 && rejected > 0 { rep.nontrivial(h); }
    judge(rep, c, rules, &w, &exp);
}

fn judge(rep: &mut Report, c: &Case, rules: &asca::verif::ParsedRules, w: &Word, exp_flat: &[M]) {
    let case = || json!({"rule": c.text, "word": sw::render(w), "word_struct": sw::dump(w)});
    match apply(rules, w) {
        Applied::Ok(g) => {
            let got_flat: Vec<M> = g.syllables.iter().flat_map(|s| s.segments.iter().map(to_m)).collect();
            let same_shape = g.syllables.len() == w.syllables.len() && g.syllables.iter().zip(&w.syllables).all(|(a, b)| a.segments.len() == b.segments.len() && a.stress == b.stress && a.tone == b.tone);
            if got_flat != exp_flat {
                rep.violation(format!("segments {}", c.shape), || json!({"case": case(), "expected": format!("{exp_flat:?}"), "observed": sw::dump_json(&g)}));
            } else if !same_shape {
                rep.violation(format!("prosody {}", c.shape), || json!({"case": case(), "expected": "boundaries, stress and tone unchanged", "observed": sw::dump_json(&g)}));
            }
        }
        Applied::Err(k) => rep.violation(format!("error {}", c.shape), || json!({"case": case(), "expected": format!("{exp_flat:?}"), "observed": k})),
        Applied::Abort(s) => rep.abort(s, case),
    }
}

pub fn explore(ctx: &Ctx, shard: usize, n: usize) -> Report {
    let mut rep = Report::new(RULE);
    let tab = Tab::new(&EXTRA);
    let els = elems(); let outs = outputs();
    let lmax_exh = ctx.pick(3, 4) as usize;
    let lmax_rnd = ctx.pick(4, 5) as usize;
    let words: Vec<Vec<Vec<Vec<usize>>>> = (1..=lmax_rnd).map(words_of_len).collect();
    let mut job = 0usize;
    // 1. exhaustive: every input x output x (b, a) with |b|,|a| <= 1, context-only and exception-only
    let (bs, as_) = (sides1(&els, true), sides1(&els, false));
    let mut nrules = 0u64;
    for inp in &els { for out in &outs {
        for b in &bs { for a in &as_ {
            if b.is_empty() && a.is_empty() { continue }
            for as_exc in [false, true] {
                job += 1; if (job - 1) % n != shard { continue }
                let env = vec![(b.clone(), a.clone())];
                let r = BRule { inp: inp.clone(), out: out.clone(), ctx: if as_exc { None } else { Some(env.clone()) }, exc: if as_exc { Some(env) } else { None } };
                let text = rule_text(&tab, &r); let shape = rule_shape(&r);
                let rules = match compile1(&text) { Ok(x) => x, Err(o) => { rep.eval(1); let t = text.clone(); rep.violation(format!("rule-rejected {shape}"), || json!({"case": {"rule": t}, "expected": "parses", "observed": o.tag()})); continue } };
                nrules += 1;
                let c = Case { tab: &tab, rule: &r, text: &text, shape: &shape };
                // the longest word length only for a seeded 1/16 (quick) or 1/4 (thorough) of the rules
                let full = hash64(&(job as u64, ctx.seed)) % ctx.pick(16, 4) == 0;
                for l in 0..lmax_exh { if l + 1 == lmax_exh && !full { continue } for sy in &words[l] { run_case(&mut rep, &c, &rules, sy); } }
                if nrules % 1500 == 3 { let t = text.clone(); rep.sample(|| json!({"rule": t, "words": format!("all words of <= {lmax_exh} segments in every syllabification"), "compared": "flattened feature bundles + boundaries/stress/tone with the reference interpreter"})); }
            }
        } }
    } }
    rep.obs("rules_exhaustive_part", nrules);
    // 2. seeded sample: sides up to 2, context and exception together, environment sets
    let nr = ctx.pick(600, 12000) as usize;
    let mut rng = Rng::new(ctx.seed, 0x303);
    let mut nr_done = 0u64;
    for k in 0..nr {
        let inp = rng.pick(&els).clone(); let out = rng.pick(&outs).clone();
        let ctxv = if rng.chance(4, 5) { Some(rand_envs(&mut rng, &els, 2)) } else { None };
        let excv = if rng.chance(1, 2) { Some(rand_envs(&mut rng, &els, 2)) } else { None };
        let wseed = rng.next();
        if k % n != shard { continue }
        let r = BRule { inp, out, ctx: ctxv, exc: excv };
        let text = rule_text(&tab, &r); let shape = rule_shape(&r);
        let rules = match compile1(&text) { Ok(x) => x, Err(o) => { rep.eval(1); let t = text.clone(); rep.violation(format!("rule-rejected {shape}"), || json!({"case": {"rule": t}, "expected": "parses", "observed": o.tag()})); continue } };
        nr_done += 1;
        let c = Case { tab: &tab, rule: &r, text: &text, shape: &shape };
        // all words up to 3, a seeded 1/8 (quick) or 1/4 (thorough) of the longer ones
        let mut wr = Rng::new(wseed, 1);
        let keep = ctx.pick(8, 4) as usize;
        for l in 0..lmax_rnd { for sy in &words[l] { if l >= 3 && wr.below(keep) != 0 { continue } run_case(&mut rep, &c, &rules, sy); } }
        if k % 97 == 5 { let t = text.clone(); rep.sample(|| json!({"rule": t, "words": "all <= 3 segments + seeded sample of longer ones"})); }
    }
    rep.obs("rules_sampled_part", nr_done);
    rep
}

pub fn replay(_ctx: &Ctx, case: &Value) -> Report {
    // a case is {"rule": text, "word": rendered word}; the rule is re-derived by searching the generator's
    // shape space is not possible from text alone, so the replay re-parses the rule text with a tiny parser of the printer's own output
    let mut rep = Report::new(RULE);
    let tab = Tab::new(&EXTRA);
    let text = jstr(case, "rule");
    let Some(r) = parse_printed(&tab, &text) else { rep.notes.push("cannot re-read rule".into()); return rep };
    let Ok(w) = parse_word(&jstr(case, "word")) else { rep.notes.push("word does not parse".into()); return rep };
    let wm: Vec<Vec<M>> = w.syllables.iter().map(|s| s.segments.iter().map(to_m).collect()).collect();
    let Some((exp, _, _)) = reference(&tab, &r, &wm) else { rep.notes.push("outside the property (equal neighbours)".into()); return rep };
    let Ok(rules) = compile1(&text) else { rep.violation("rule-rejected".into(), || json!({"case": case})); return rep };
    let shape = rule_shape(&r);
    rep.eval(1);
    judge(&mut rep, &Case { tab: &tab, rule: &r, text: &text, shape: &shape }, &rules, &w, &exp);
    rep
}

// ---- reader for the printer's own output (only what rule_text can emit)
fn parse_el(tab: &Tab, s: &str) -> Option<El> {
    let s = s.trim();
    if s == "$" { return Some(El::SyllB) } if s == "#" { return Some(El::WordB) }
    if let Some(body) = s.strip_prefix('[') { let body = body.strip_suffix(']')?; return Some(El::Mat(body.split(',').map(|x| { let x = x.trim(); (fidx(&x[1..]), x.starts_with('+')) }).collect())) }
    if let Some(body) = s.strip_prefix('{') { let body = body.strip_suffix('}')?; return Some(El::Set(body.split(',').map(|x| parse_el(tab, x)).collect::<Option<Vec<_>>>()?)) }
    if s.len() == 1 && s.chars().next()?.is_ascii_uppercase() { return Some(El::Grp(s.chars().next()?)) }
    tab.names.iter().position(|n| n == s).map(El::Ipa)
}
fn split_top(s: &str) -> Vec<String> { // split on spaces outside brackets
    let mut out = Vec::new(); let mut cur = String::new(); let mut depth = 0;
    for c in s.chars() { match c { '[' | '{' => { depth += 1; cur.push(c) } ']' | '}' => { depth -= 1; cur.push(c) } ' ' if depth == 0 => { if !cur.is_empty() { out.push(std::mem::take(&mut cur)) } } _ => cur.push(c) } }
    if !cur.is_empty() { out.push(cur) }
    out
}
fn parse_env(tab: &Tab, s: &str) -> Option<Env> {
    let (b, a) = s.split_once('_')?;
    Some((split_top(b).iter().map(|x| parse_el(tab, x)).collect::<Option<Vec<_>>>()?, split_top(a).iter().map(|x| parse_el(tab, x)).collect::<Option<Vec<_>>>()?))
}
fn parse_envs(tab: &Tab, s: &str) -> Option<Vec<Env>> {
    let s = s.trim();
    if let Some(body) = s.strip_prefix(":{") { let body = body.strip_suffix("}:")?; 
        // split on commas outside brackets
        let mut parts = Vec::new(); let mut cur = String::new(); let mut depth = 0;
        for c in body.chars() { match c { '[' | '{' => { depth += 1; cur.push(c) } ']' | '}' => { depth -= 1; cur.push(c) } ',' if depth == 0 => parts.push(std::mem::take(&mut cur)), _ => cur.push(c) } }
        parts.push(cur);
        parts.iter().map(|p| parse_env(tab, p)).collect()
    } else { Some(vec![parse_env(tab, s)?]) }
}
fn parse_printed(tab: &Tab, text: &str) -> Option<BRule> {
    let (head, exc) = match text.split_once(" | ") { Some((h, e)) => (h, Some(e)), None => (text, None) };
    let (head, ctx) = match head.split_once(" / ") { Some((h, c)) => (h, Some(c)), None => (head, None) };
    let (i, o) = head.split_once(" > ")?;
    Some(BRule { inp: parse_el(tab, i)?, out: parse_el(tab, o)?, ctx: match ctx { Some(c) => Some(parse_envs(tab, c)?), None => None }, exc: match exc { Some(c) => Some(parse_envs(tab, c)?), None => None } })
}
