//! Shared workload generators: a rule AST covering the documented grammar with a printer that
//! can emit every documented spelling, random rule/word generators and AST classifiers.
use crate::util::Rng;

// ------------------------------------------------------------------------------------------ AST
#[derive(Clone, Debug, PartialEq)]
pub enum FV { Pos, Neg, Alpha(char), InvAlpha(char) }

/// canonical feature / node / suprasegmental names (first spelling in the manual)
pub const FEATS: [&str; 26] = ["cons", "son", "syll", "cont", "approx", "lat", "nasal", "delrel", "strid", "rhotic", "click", "voice", "sg", "cg",
    "labdent", "round", "ant", "dist", "front", "back", "hi", "lo", "tense", "red", "atr", "rtr"];
pub const NODES: [&str; 5] = ["lab", "cor", "dor", "phr", "place"];
pub const SUPRAS: [&str; 4] = ["long", "overlong", "stress", "sec.stress"];

#[derive(Clone, Debug, PartialEq, Default)]
pub struct Mods { pub feats: Vec<(String, FV)>, pub tone: Option<u16> }
impl Mods {
    pub fn one(name: &str, v: FV) -> Mods { Mods { feats: vec![(name.to_string(), v)], tone: None } }
    pub fn is_empty(&self) -> bool { self.feats.is_empty() && self.tone.is_none() }
    pub fn has_supra(&self) -> bool { self.tone.is_some() || self.feats.iter().any(|(n, _)| SUPRAS.contains(&n.as_str())) }
    pub fn has_length(&self) -> bool { self.feats.iter().any(|(n, _)| n == "long" || n == "overlong") }
    pub fn has_alpha(&self) -> bool { self.feats.iter().any(|(_, v)| matches!(v, FV::Alpha(_) | FV::InvAlpha(_))) }
    pub fn only_syll_supras(&self) -> bool { self.feats.iter().all(|(n, _)| n == "stress" || n == "sec.stress") }
}

#[derive(Clone, Debug, PartialEq)]
pub enum El {
    Ipa(String, Option<Mods>),
    Mat(Mods, Option<u8>),
    Grp(char, Option<Mods>, Option<u8>),
    Set(Vec<El>),
    Syll(Option<Mods>, Option<u8>),
    Struct(Vec<El>, Option<Mods>, Option<u8>),
    Var(u8, Option<Mods>),
    Ellipsis,
    Opt(Vec<El>, usize, usize),
    SyllB,
    WordB,
}

#[derive(Clone, Debug, PartialEq)]
pub enum Term { Els(Vec<El>), Star, Amp }

#[derive(Clone, Debug, PartialEq, Default)]
pub struct Env { pub before: Vec<El>, pub after: Vec<El> }

#[derive(Clone, Debug, PartialEq)]
pub enum EnvSpec { One(Env), Set(Vec<Env>) }

#[derive(Clone, Debug, PartialEq)]
pub enum EnvBlock { None, List(Vec<EnvSpec>), Special(Vec<El>) }

#[derive(Clone, Debug, PartialEq)]
pub struct Rule { pub input: Vec<Term>, pub output: Vec<Term>, pub ctx: EnvBlock, pub exc: EnvBlock }

// ------------------------------------------------------------------------------------------ printer
/// spelling choices; `Spelling::default()` is the plain form used everywhere except C13
#[derive(Clone, Debug)]
pub struct Spelling {
    pub arrow: u8,          // 0 '>'  1 '=>'  2 '->'
    pub dslash: bool,       // '//' instead of '|'
    pub empty_set: bool,    // '∅' instead of '*'
    pub ellipsis: u8,       // 0 '...'  1 '..'  2 '…'
    pub ascii_angle: bool,  // '< >' instead of '⟨ ⟩'
    pub matrix_spaces: bool,
    pub greek: bool,        // alpha letters in Greek
    pub feat_variant: u32,  // selects the synonym of every feature name (index modulo the list)
    pub comment: Option<String>,
    pub var_shift: u8,      // consistent renumbering of variables
    pub alpha_shift: u8,    // consistent renaming of alpha letters
}
impl Default for Spelling {
    fn default() -> Self { Spelling { arrow: 0, dslash: false, empty_set: false, ellipsis: 0, ascii_angle: false, matrix_spaces: false, greek: false, feat_variant: 0, comment: None, var_shift: 0, alpha_shift: 0 } }
}

/// every spelling the lexer documents for a canonical name (first = canonical)
pub fn synonyms(name: &str) -> &'static [&'static str] {
    match name {
        "cons" => &["cons", "consonantal", "consonant", "cns"],
        "son" => &["son", "sonorant", "sonor", "snrt", "sn"],
        "syll" => &["syll", "syllabic", "syllab", "syl"],
        "cont" => &["cont", "continuant", "contin", "cnt"],
        "approx" => &["approx", "approximant", "appr", "app"],
        "lat" => &["lat", "lateral", "latrl", "ltrl"],
        "nasal" => &["nasal", "nsl", "nas"],
        "delrel" => &["delrel", "delayedrelease", "d.r.", "del.rel.", "delayed", "dl", "dlrl", "dr", "delay", "drelease", "del.rel", "drel"],
        "strid" => &["strid", "strident", "stri", "stridnt"],
        "rhotic" => &["rhotic", "rhot", "rho", "rhtc", "rh"],
        "click" => &["click", "clik", "clk", "clck"],
        "voice" => &["voice", "voi", "vce", "vc"],
        "sg" => &["sg", "spreadglottis", "spreadglot", "spread", "s.g.", "s.g"],
        "cg" => &["cg", "constrictedglottis", "constricted", "constglot", "constr", "c.g.", "c.g"],
        "labdent" => &["labdent", "labiodental", "ldental", "labiodent", "labio", "labiod", "lbdntl", "ldent", "ldl"],
        "round" => &["round", "rund", "rnd", "rd"],
        "ant" => &["ant", "anterior", "anter", "antr"],
        "dist" => &["dist", "distributed", "distrib", "dis", "dst"],
        "front" => &["front", "frnt", "fnt", "fro", "frt", "fr"],
        "back" => &["back", "bck", "bk"],
        "hi" => &["hi", "high", "hgh"],
        "lo" => &["lo", "low", "lw"],
        "tense" => &["tense", "tens", "tns", "ten"],
        "red" => &["red", "reduced", "reduc", "redu", "rdcd"],
        "atr" => &["atr", "advancedtongueroot", "a.t.r.", "a.t.r", "a.tr", "at.r"],
        "rtr" => &["rtr", "retractedtongueroot", "r.t.r.", "r.t.r", "r.tr", "rt.r"],
        "lab" => &["lab", "labial", "lbl"],
        "cor" => &["cor", "coronal", "coron", "crnl"],
        "dor" => &["dor", "dorsal", "drsl", "dors"],
        "phr" => &["phr", "pharyngeal", "pharyng", "pharyn", "phar"],
        "place" => &["place", "plce", "plc"],
        "long" => &["long", "lng"],
        "overlong" => &["overlong", "overlng", "ovrlng", "vlong", "olong", "vlng", "olng"],
        "stress" => &["stress", "str"],
        "sec.stress" => &["sec.stress", "secondarystress", "secstress", "sec.str.", "sec.str", "secstr", "sec"],
        "tone" => &["tone", "ton", "tne", "tn"],
        _ => &[],
    }
}

const GREEK: [char; 8] = ['α', 'β', 'γ', 'δ', 'ε', 'ζ', 'η', 'θ'];
const LATIN: [char; 8] = ['A', 'B', 'C', 'D', 'E', 'F', 'G', 'H'];

impl Spelling {
    fn feat(&self, name: &str, salt: u32) -> String {
        let syn = synonyms(name);
        if syn.is_empty() { return name.to_string() }
        let idx = if self.feat_variant == 0 { 0 } else { (self.feat_variant.wrapping_mul(2654435761).wrapping_add(salt.wrapping_mul(40503)) >> 7) as usize % syn.len() };
        syn[idx].to_string()
    }
    fn alpha(&self, c: char) -> char {
        let i = (LATIN.iter().position(|x| *x == c).unwrap_or(0) + self.alpha_shift as usize) % 8;
        if self.greek { GREEK[i] } else { LATIN[i] }
    }
    fn var(&self, n: u8) -> u8 { n + self.var_shift }
    fn mods(&self, m: &Mods) -> String {
        let mut parts = Vec::new();
        for (k, (n, v)) in m.feats.iter().enumerate() {
            let name = self.feat(n, k as u32);
            let pre = match v { FV::Pos => "+".to_string(), FV::Neg => "-".to_string(), FV::Alpha(c) => self.alpha(*c).to_string(), FV::InvAlpha(c) => format!("-{}", self.alpha(*c)) };
            if self.matrix_spaces { parts.push(format!(" {pre} {} ", spaced(&name))) } else { parts.push(format!("{pre}{name}")) }
        }
        if let Some(t) = m.tone { let tn = self.feat("tone", 99); parts.push(if self.matrix_spaces { format!(" {tn} : {t} ") } else { format!("{tn}:{t}") }); }
        format!("[{}]", parts.join(","))
    }
    fn opt_mods(&self, m: &Option<Mods>) -> String { match m { Some(m) => format!(":{}", self.mods(m)), None => String::new() } }
    fn bind(&self, v: &Option<u8>) -> String { match v { Some(n) => format!("={}", self.var(*n)), None => String::new() } }
    pub fn el(&self, e: &El) -> String {
        match e {
            El::Ipa(s, m) => format!("{s}{}", self.opt_mods(m)),
            El::Mat(m, v) => format!("{}{}", self.mods(m), self.bind(v)),
            El::Grp(c, m, v) => format!("{c}{}{}", self.opt_mods(m), self.bind(v)),
            El::Set(v) => format!("{{{}}}", v.iter().map(|x| self.el(x)).collect::<Vec<_>>().join(", ")),
            El::Syll(m, v) => format!("%{}{}", self.opt_mods(m), self.bind(v)),
            El::Struct(items, m, v) => { let (l, r) = if self.ascii_angle { ("<", ">") } else { ("⟨", "⟩") }; format!("{l}{}{r}{}{}", self.els(items), self.opt_mods(m), self.bind(v)) }
            El::Var(n, m) => format!("{}{}", self.var(*n), self.opt_mods(m)),
            El::Ellipsis => ["...", "..", "…"][self.ellipsis as usize % 3].to_string(),
            El::Opt(items, lo, hi) => if *lo == 0 && *hi == 1 { format!("({})", self.els(items)) } else if *lo == 0 { format!("({},{hi})", self.els(items)) } else { format!("({},{lo}:{hi})", self.els(items)) },
            El::SyllB => "$".into(),
            El::WordB => "#".into(),
        }
    }
    pub fn els(&self, v: &[El]) -> String { v.iter().map(|e| self.el(e)).collect::<Vec<_>>().join(" ") }
    fn term(&self, t: &Term) -> String { match t { Term::Els(v) => self.els(v), Term::Star => if self.empty_set { "∅".into() } else { "*".into() }, Term::Amp => "&".into() } }
    pub fn env(&self, e: &Env) -> String { format!("{} _ {}", self.els(&e.before), self.els(&e.after)).trim().to_string() }
    fn envspec(&self, e: &EnvSpec) -> String { match e { EnvSpec::One(e) => self.env(e), EnvSpec::Set(v) => format!(":{{ {} }}:", v.iter().map(|e| self.env(e)).collect::<Vec<_>>().join(", ")) } }
    fn block(&self, b: &EnvBlock) -> Option<String> {
        match b { EnvBlock::None => None, EnvBlock::List(v) => Some(v.iter().map(|e| self.envspec(e)).collect::<Vec<_>>().join(", ")), EnvBlock::Special(x) => Some(format!("_, {}", self.els(x))) }
    }
    pub fn rule(&self, r: &Rule) -> String {
        let arrow = [">", "=>", "->"][self.arrow as usize % 3];
        let mut s = format!("{} {arrow} {}", r.input.iter().map(|t| self.term(t)).collect::<Vec<_>>().join(", "), r.output.iter().map(|t| self.term(t)).collect::<Vec<_>>().join(", "));
        if let Some(c) = self.block(&r.ctx) { s += &format!(" / {c}"); }
        if let Some(c) = self.block(&r.exc) { s += &format!(" {} {c}", if self.dslash { "//" } else { "|" }); }
        if let Some(c) = &self.comment { s += &format!(" ;; {c}"); }
        s
    }
}
fn spaced(s: &str) -> String { s.chars().map(|c| c.to_string()).collect::<Vec<_>>().join(" ") }
pub fn plain(r: &Rule) -> String { Spelling::default().rule(r) }

// ------------------------------------------------------------------------------------------ classifiers
pub fn walk<'a>(els: &'a [El], f: &mut dyn FnMut(&'a El)) {
    for e in els { f(e); match e { El::Set(v) | El::Opt(v, _, _) => walk(v, f), El::Struct(v, _, _) => walk(v, f), _ => {} } }
}
impl Rule {
    pub fn all_sides(&self) -> Vec<&Vec<El>> {
        let mut v: Vec<&Vec<El>> = Vec::new();
        for t in self.input.iter().chain(&self.output) { if let Term::Els(e) = t { v.push(e) } }
        for b in [&self.ctx, &self.exc] { match b { EnvBlock::None => {}, EnvBlock::Special(x) => v.push(x), EnvBlock::List(l) => for s in l { match s { EnvSpec::One(e) => { v.push(&e.before); v.push(&e.after) } EnvSpec::Set(es) => for e in es { v.push(&e.before); v.push(&e.after) } } } } }
        v
    }
    pub fn is_insertion(&self) -> bool { self.input.iter().all(|t| *t == Term::Star) }
    pub fn is_deletion(&self) -> bool { self.output.iter().all(|t| *t == Term::Star) }
    pub fn is_metathesis(&self) -> bool { self.output.iter().all(|t| *t == Term::Amp) }
    pub fn mentions(&self, pred: &dyn Fn(&El) -> bool) -> bool { let mut hit = false; for s in self.all_sides() { walk(s, &mut |e| if pred(e) { hit = true }); } hit }
}

// ------------------------------------------------------------------------------------------ inventories
/// segments used in generated rules and words (all parse; chosen so that groups, features and
/// places are all represented, with a few diacritic and multi-character ones)
pub const CONS: [&str; 31] = ["p", "t", "k", "b", "d", "ɡ", "m", "n", "ŋ", "s", "z", "f", "v", "x", "h", "ʔ", "l", "r", "j", "w", "t͡s", "d͡ʒ", "ʃ", "q", "pʰ", "kʷ", "tʲ", "ᵐb", "ɲ", "θ", "ɟ"];
// (nasalised and rhotacised vowels in their decomposed spelling, the only one rules and alias lines accept; `rand_word` writes the
// precomposed letters ã õ ɚ half of the time, which the program splits in two before reading a word)
pub const VOWS: [&str; 14] = ["a", "e", "i", "o", "u", "ə", "ɛ", "ɔ", "y", "ɯ", "a\u{0303}", "æ", "o\u{0303}", "ə\u{02DE}"];
pub const GROUPS: [char; 9] = ['C', 'O', 'S', 'P', 'F', 'L', 'N', 'G', 'V'];
pub const TONES: [u16; 6] = [5, 51, 214, 35, 1234, 3];
/// tone literals as written in rules: also with zeros, which the manual says are dropped (`[tone: 30]` is tone 3, `10234` is 1234)
pub const RULE_TONES: [u16; 11] = [5, 51, 214, 35, 1234, 3, 30, 105, 50, 10234, 2040];

pub fn rand_seg(r: &mut Rng) -> String { if r.chance(2, 5) { r.pick(&VOWS).to_string() } else { r.pick(&CONS).to_string() } }

#[derive(Clone, Copy)]
pub struct WordCfg { pub max_sylls: usize, pub max_segs: usize, pub stress: bool, pub tone: bool, pub length: bool }
impl Default for WordCfg { fn default() -> Self { WordCfg { max_sylls: 4, max_segs: 4, stress: true, tone: true, length: true } } }

/// a word as text the word parser accepts: syllables of (C)(C)V(ː)(C), stress marks, tones
pub fn rand_word(r: &mut Rng, c: &WordCfg) -> String {
    let ns = r.range(1, c.max_sylls);
    let mut out = String::new();
    let primary = if c.stress && r.chance(2, 3) { Some(r.below(ns)) } else { None };
    let mut prev_tone = false;
    for i in 0..ns {
        let st = if Some(i) == primary { "ˈ" } else if c.stress && r.chance(1, 8) { "ˌ" } else if i > 0 { "." } else { "" };
        // a tone closes the syllable, so the dot may be dropped after it; before a stress mark the dot is optional and sometimes written
        if st == "." && prev_tone && r.chance(1, 2) {} else { if i > 0 && st != "." && r.chance(1, 6) { out.push('.') } out.push_str(st); }
        let mut segs: Vec<String> = Vec::new();
        let shape = r.below(8);
        let onset = match shape { 0 => 0, 1 | 2 | 3 | 4 => 1, _ => if c.max_segs >= 4 { 2 } else { 1 } };
        for _ in 0..onset { segs.push(r.pick(&CONS).to_string()); if c.length && r.chance(1, 25) { segs.push("ː".into()); } }
        let v = r.pick(&VOWS).to_string();
        segs.push(v.clone());
        if c.length && r.chance(1, 6) { segs.push(if r.chance(1, 4) { "ːː".into() } else { "ː".into() }); }
        if r.chance(2, 5) && segs.len() < c.max_segs + 1 { let cc = r.pick(&CONS).to_string(); segs.push(cc); if c.length && r.chance(1, 10) { segs.push("ː".into()); } }
        if r.chance(1, 12) { segs = vec![r.pick(&CONS).to_string()]; } // vowel-less syllable
        // never two equal segments side by side unless written as length
        let mut flat = String::new(); let mut last = String::new();
        for s in segs { if s == last { continue } flat.push_str(&s); if !s.starts_with('ː') { last = s; } }
        out.push_str(&flat);
        prev_tone = false;
        // (a tone may be written with zeros, which do not count: 105 is 15)
        if c.tone && r.chance(1, 6) { if r.chance(1, 12) { out.push_str(*r.pick(&["105", "50", "0", "3040"])) } else { out.push_str(&r.pick(&TONES).to_string()) } prev_tone = true; }
    }
    if r.chance(1, 2) { out = out.replace("a\u{0303}", "ã").replace("o\u{0303}", "õ").replace("ə\u{02DE}", "ɚ"); }
    out
}

/// a word in which syllables (and so segments) recur, so that variables referring back to a captured segment or syllable
/// and rules over identical neighbours have something to match: 1-2 syllables drawn once, then repeated / interleaved
pub fn rand_echo_word(r: &mut Rng, c: &WordCfg) -> String {
    let cfg = WordCfg { max_sylls: 1, stress: false, tone: false, ..*c };
    let pool: Vec<String> = (0..r.range(1, 2)).map(|_| rand_word(r, &cfg)).collect();
    let n = r.range(2, c.max_sylls.max(2) + 1);
    let mut out = String::new();
    let primary = if c.stress && r.chance(1, 3) { Some(r.below(n)) } else { None };
    for i in 0..n {
        out.push_str(if Some(i) == primary { "ˈ" } else if i > 0 { "." } else { "" });
        out.push_str(if r.chance(3, 4) { &pool[0] } else { &pool[pool.len() - 1] });
    }
    out
}

/// A word built to be matched by `rule`: before-context, input and after-context of its first alternative are instantiated
/// element by element (a group letter by a typical member, a set by one member, a variable by what its binder got, an
/// optional by its minimum, `...` by a segment or two) and padded at the open ends. Nothing guarantees the match - matrices
/// get a random segment - but it happens far more often than on a random word, which is what the monitors using this want:
/// long partial matches. None when the rule has no instantiable input.
pub fn witness_word(rule: &Rule, r: &mut Rng) -> Option<String> {
    fn member(c: char, r: &mut Rng) -> &'static str {
        match c { 'V' => *r.pick(&["a", "i", "u", "e", "o"]), 'O' => *r.pick(&["p", "t", "k", "s", "b"]), 'S' => *r.pick(&["n", "m", "l", "r"]), 'P' => *r.pick(&["p", "t", "k", "d"]),
                  'F' => *r.pick(&["s", "f", "x", "z"]), 'L' => *r.pick(&["l", "r"]), 'N' => *r.pick(&["n", "m", "ŋ"]), 'G' => *r.pick(&["j", "w"]), _ => *r.pick(&["t", "k", "s", "n", "l", "m"]) }
    }
    // tokens: segments as text, "." for a boundary
    fn inst(els: &[El], r: &mut Rng, vars: &mut std::collections::HashMap<u8, Vec<String>>, out: &mut Vec<String>) {
        for e in els {
            let start = out.len();
            let mut bind: Option<u8> = None;
            match e {
                El::Ipa(s, m) => { out.push(s.clone()); if m.as_ref().map(|m| m.feats.iter().any(|(n, v)| n == "long" && *v == FV::Pos)).unwrap_or(false) { out.push("ː".into()) } }
                El::Mat(_, b) => { out.push(rand_seg(r)); bind = *b; }
                El::Grp(c, _, b) => { out.push(member(*c, r).to_string()); bind = *b; }
                El::Set(v) => { let k = r.below(v.len().max(1)); if let Some(x) = v.get(k) { inst(std::slice::from_ref(x), r, vars, out) } }
                El::Syll(_, b) => { out.push(".".into()); out.push(member('C', r).to_string()); out.push(member('V', r).to_string()); out.push(".".into()); bind = *b; }
                El::Struct(items, _, b) => { out.push(".".into()); inst(items, r, vars, out); out.push(".".into()); bind = *b; }
                El::Var(n, _) => if let Some(v) = vars.get(n) { out.extend(v.iter().cloned()) } else { out.push(rand_seg(r)) },
                El::Ellipsis => for _ in 0..r.range(1, 2) { out.push(rand_seg(r)) },
                El::Opt(items, lo, hi) => { let k = if *hi == 0 { *lo + r.below(2) } else { (*lo).min(3).max(if r.chance(1, 2) { 1.min(*hi) } else { 0 }) }; for _ in 0..k.max(*lo).min(3) { inst(items, r, vars, out) } }
                El::SyllB => out.push(".".into()),
                El::WordB => {}
            }
            if let Some(b) = bind { vars.insert(b, out[start..].to_vec()); }
        }
    }
    let input = rule.input.iter().find_map(|t| if let Term::Els(e) = t { Some(e.clone()) } else { None });
    let env = match &rule.ctx { EnvBlock::List(v) => v.first().map(|s| match s { EnvSpec::One(e) => e.clone(), EnvSpec::Set(es) => es.first().cloned().unwrap_or_default() }), EnvBlock::Special(x) => Some(Env { before: vec![], after: x.clone() }), EnvBlock::None => None }.unwrap_or_default();
    if input.is_none() && env.before.is_empty() && env.after.is_empty() { return None }
    let mut vars = std::collections::HashMap::new();
    let mut toks: Vec<String> = Vec::new();
    let open_left = env.before.first() != Some(&El::WordB);
    let open_right = env.after.last() != Some(&El::WordB);
    if open_left { for _ in 0..r.below(3) { toks.push(rand_seg(r)); if r.chance(1, 3) { toks.push(".".into()) } } }
    inst(&env.before, r, &mut vars, &mut toks);
    if let Some(i) = &input { inst(i, r, &mut vars, &mut toks) }
    inst(&env.after, r, &mut vars, &mut toks);
    if open_right { for _ in 0..r.below(3) { if r.chance(1, 3) { toks.push(".".into()) } toks.push(rand_seg(r)); } }
    // tidy the boundaries: none at the edges, none doubled
    let mut text = String::new(); let mut last_dot = true;
    for t in toks { if t == "." { if !last_dot { text.push('.'); last_dot = true } } else { text.push_str(&t); last_dot = false } }
    let text = text.trim_end_matches('.').to_string();
    if text.is_empty() { None } else { Some(text) }
}

// ------------------------------------------------------------------------------------------ rule generator
#[derive(Clone, Copy)]
pub struct RuleCfg {
    pub alphas: bool, pub vars: bool, pub structs: bool, pub sylls: bool, pub opts: bool, pub ellipsis: bool, pub sets: bool,
    pub supras: bool, pub bounds: bool, pub env_sets: bool, pub condensed: bool, pub special_env: bool,
    pub max_side: usize,
    pub kinds: [bool; 4], // substitution, deletion, insertion, metathesis
}
impl Default for RuleCfg {
    fn default() -> Self { RuleCfg { alphas: true, vars: true, structs: true, sylls: true, opts: true, ellipsis: true, sets: true, supras: true, bounds: true, env_sets: true, condensed: true, special_env: true, max_side: 3, kinds: [true; 4] } }
}

pub struct RuleGen<'a> { pub r: &'a mut Rng, pub c: RuleCfg, next_var: u8, bound_alphas: Vec<(char, u8 /*0 feat 1 node 2 supra*/)>, bound_vars: Vec<(u8, bool /*syllable*/)> }

impl<'a> RuleGen<'a> {
    pub fn new(r: &'a mut Rng, c: RuleCfg) -> Self { RuleGen { r, c, next_var: 1, bound_alphas: vec![], bound_vars: vec![] } }

    fn seg_feat(&mut self) -> String { self.r.pick(&FEATS).to_string() }
    fn binval(&mut self) -> FV { if self.r.chance(1, 2) { FV::Pos } else { FV::Neg } }

    /// matcher modifiers (may bind alphas)
    pub fn match_mods(&mut self, allow_supra: bool, syll_only: bool) -> Mods {
        let mut m = Mods::default();
        if !syll_only {
            let n = self.r.range(1, 2);
            for _ in 0..n {
                let f = if self.r.chance(1, 8) { self.r.pick(&NODES).to_string() } else { self.seg_feat() };
                if m.feats.iter().any(|(x, _)| *x == f) { continue }
                let is_node = NODES.contains(&f.as_str());
                let v = if self.c.alphas && self.r.chance(1, 6) {
                    // half the time a letter that is already bound for this kind (agreement between two matchers), now and then inverted
                    let kind = if is_node { 1 } else { 0 };
                    let same: Vec<char> = self.bound_alphas.iter().filter(|a| a.1 == kind).map(|a| a.0).collect();
                    if !same.is_empty() && self.r.chance(1, 2) { let c = *self.r.pick(&same); if !is_node && self.r.chance(1, 3) { FV::InvAlpha(c) } else { FV::Alpha(c) } }
                    else { let c = LATIN[self.bound_alphas.len() % 4]; if !self.bound_alphas.iter().any(|a| a.0 == c) { self.bound_alphas.push((c, kind)); } FV::Alpha(c) }
                } else { self.binval() };
                m.feats.push((f, v));
            }
        }
        if (allow_supra && self.c.supras && self.r.chance(1, 4)) || (syll_only && m.feats.is_empty()) {
            match self.r.below(if syll_only { 4 } else { 7 }) {
                0 => { let v = self.binval(); m.feats.push(("stress".into(), v)) }
                1 => { let v = self.binval(); m.feats.push(("sec.stress".into(), v)) }
                2 => m.tone = Some(*self.r.pick(&RULE_TONES)),
                3 => { let v = if self.c.alphas && self.r.chance(1, 2) { let c = 'E'; if !self.bound_alphas.iter().any(|a| a.0 == c) { self.bound_alphas.push((c, 2)); } FV::Alpha(c) } else { self.binval() }; m.feats.push(("stress".into(), v)) }
                4 => { let v = self.binval(); m.feats.push(("long".into(), v)) }
                5 => { let v = self.binval(); m.feats.push(("overlong".into(), v)); if self.r.chance(1, 2) { let w = self.binval(); m.feats.push(("long".into(), w)) } }
                _ => { let v = if self.c.alphas && self.r.chance(1, 3) { let c = 'D'; if !self.bound_alphas.iter().any(|a| a.0 == c) { self.bound_alphas.push((c, 2)); } FV::Alpha(c) } else { self.binval() }; m.feats.push(("long".into(), v)) }
            }
        }
        m
    }
    /// setter modifiers (use bound alphas)
    pub fn set_mods(&mut self, allow_supra: bool) -> Mods {
        let mut m = Mods::default();
        let n = self.r.range(1, 2);
        for _ in 0..n {
            let f = self.seg_feat();
            if m.feats.iter().any(|(x, _)| *x == f) { continue }
            let feat_alphas: Vec<char> = self.bound_alphas.iter().filter(|a| a.1 != 1).map(|a| a.0).collect();
            let v = if !feat_alphas.is_empty() && self.r.chance(1, 2) { let c = *self.r.pick(&feat_alphas); if self.r.chance(1, 4) { FV::InvAlpha(c) } else { FV::Alpha(c) } } else { self.binval() };
            m.feats.push((f, v));
        }
        if let Some((c, _)) = self.bound_alphas.iter().find(|a| a.1 == 1).cloned() { if self.r.chance(1, 2) { let nd = self.r.pick(&NODES).to_string(); m.feats.push((nd, FV::Alpha(c))); } }
        if self.r.chance(1, 10) { m.feats.push(("place".into(), FV::Neg)); }
        if self.r.chance(1, 8) { let nd = self.r.pick(&NODES[..4]).to_string(); let v = self.binval(); m.feats.push((nd, v)); }
        if allow_supra && self.c.supras && self.r.chance(1, 4) {
            match self.r.below(6) {
                0 => { let v = self.binval(); m.feats.push(("stress".into(), v)) }
                1 => { let v = self.binval(); m.feats.push(("long".into(), v)) }
                2 => m.tone = Some(*self.r.pick(&RULE_TONES)),
                3 => { let v = self.binval(); m.feats.push(("overlong".into(), v)) }
                4 => { let sup: Vec<char> = self.bound_alphas.iter().filter(|a| a.1 == 2).map(|a| a.0).collect(); let v = if !sup.is_empty() { FV::Alpha(*self.r.pick(&sup)) } else { self.binval() }; m.feats.push((if self.r.chance(1, 2) { "long".into() } else { "stress".into() }, v)) }
                _ => { let v = self.binval(); m.feats.push(("sec.stress".into(), v)) }
            }
        }
        m
    }
    fn bind(&mut self, syllable: bool) -> Option<u8> {
        if self.c.vars && self.r.chance(1, 5) { let n = self.next_var; self.next_var += 1; self.bound_vars.push((n, syllable)); Some(n) } else { None }
    }
    /// a segment-matching element
    pub fn seg_el(&mut self, allow_bind: bool) -> El {
        match self.r.below(10) {
            0 | 1 | 2 => El::Ipa(rand_seg(self.r), if self.r.chance(1, 6) { Some(self.match_mods(true, false)) } else { None }),
            3 | 4 | 5 => { let g = *self.r.pick(&GROUPS); let m = if self.r.chance(1, 4) { Some(self.match_mods(true, false)) } else { None }; let b = if allow_bind { self.bind(false) } else { None }; El::Grp(g, m, b) }
            6 | 7 => { let m = self.match_mods(true, false); let b = if allow_bind { self.bind(false) } else { None }; El::Mat(m, b) }
            8 => if self.c.sets { let n = self.r.range(2, 3); El::Set((0..n).map(|_| self.set_member()).collect()) } else { El::Ipa(rand_seg(self.r), None) },
            _ => { let b = if allow_bind { self.bind(false) } else { None }; El::Mat(Mods::default(), b) }
        }
    }
    /// a member of a set: mostly segments and groups, now and then a matrix, a syllable or a boundary
    fn set_member(&mut self) -> El {
        match self.r.below(24) {
            20 => El::Ipa(rand_seg(self.r), Some(self.match_mods(true, false))),
            21 => El::Grp(*self.r.pick(&GROUPS), Some(self.match_mods(true, false)), None),
            22 => { let b = self.bind(false); El::Grp(*self.r.pick(&GROUPS), None, b) }
            23 => if self.c.sylls { El::Syll(Some(self.match_mods(true, true)), None) } else { El::Ipa(rand_seg(self.r), None) },
            0..=8 => El::Ipa(rand_seg(self.r), None),
            9..=15 => El::Grp(*self.r.pick(&GROUPS), None, None),
            16 | 17 => El::Mat(self.match_mods(true, false), None),
            18 => if self.c.sylls { El::Syll(None, None) } else { El::Ipa(rand_seg(self.r), None) },
            _ => if self.c.bounds { El::SyllB } else { El::Grp(*self.r.pick(&GROUPS), None, None) },
        }
    }
    fn struct_items(&mut self) -> Vec<El> {
        let n = self.r.range(1, 3);
        let mut v: Vec<El> = Vec::new();
        let mut had_ell = false;
        for _ in 0..n {
            if self.c.ellipsis && !had_ell && self.r.chance(1, 4) { v.push(El::Ellipsis); had_ell = true; continue }
            had_ell = false;
            v.push(match self.r.below(8) {
                0 | 1 => El::Ipa(rand_seg(self.r), None), 2 => El::Grp(*self.r.pick(&GROUPS), None, None),
                3 => El::Mat(self.match_mods(false, false), None),
                4 => El::Grp(if self.r.chance(1, 2) { 'C' } else { 'V' }, Some(self.match_mods(true, false)), None),
                5 => { let b = self.bind(false); El::Grp(if self.r.chance(1, 2) { 'C' } else { 'V' }, None, b) }
                6 => { let segvars: Vec<u8> = self.bound_vars.iter().filter(|v| !v.1).map(|v| v.0).collect(); if !segvars.is_empty() { El::Var(*self.r.pick(&segvars), None) } else { El::Mat(Mods::default(), None) } }
                _ => El::Grp(if self.r.chance(1, 2) { 'C' } else { 'V' }, None, None) });
        }
        if v.iter().all(|e| *e == El::Ellipsis) { v.push(El::Grp('V', None, None)); }
        v
    }
    pub fn syll_el(&mut self, allow_bind: bool) -> El {
        let m = if self.r.chance(1, 3) { Some(self.match_mods(true, true)) } else { None };
        let b = if allow_bind { self.bind(true) } else { None };
        if self.c.structs && self.r.chance(1, 3) { El::Struct(self.struct_items(), m, b) } else { El::Syll(m, b) }
    }
    /// an input element
    pub fn input_el(&mut self) -> El {
        if self.c.sylls && self.r.chance(1, 8) { return self.syll_el(true) }
        if self.c.bounds && self.r.chance(1, 12) { return El::SyllB }
        if self.c.vars && !self.bound_vars.is_empty() && self.r.chance(1, 6) { let (n, _) = *self.r.pick(&self.bound_vars.clone()); return El::Var(n, None) }
        self.seg_el(true)
    }
    pub fn env_side(&mut self, before: bool) -> Vec<El> {
        let n = self.r.below(self.c.max_side + 1);
        let mut v = Vec::new();
        for _ in 0..n {
            let x = self.r.below(20);
            let e = match x {
                0 if self.c.bounds => El::SyllB,
                1 if self.c.sylls => self.syll_el(true),
                2 if self.c.opts => {
                    let k = self.r.range(1, 2);
                    // the body is segments, now and then a boundary (which matches without consuming anything)
                    let mut items: Vec<El> = (0..k).map(|_| if self.c.bounds && self.r.chance(1, 8) { El::SyllB } else if self.c.sylls && self.r.chance(1, 12) { El::Syll(None, None) } else if self.c.vars && !self.bound_vars.is_empty() && self.r.chance(1, 10) { let (n, _) = *self.r.pick(&self.bound_vars.clone()); El::Var(n, None) } else { self.seg_el(false) }).collect();
                    if items.iter().all(|e| *e == El::SyllB) { items.truncate(1) }
                    // bounds: the usual small ones, open, and now and then an enormous explicit maximum
                    let (lo, hi) = match self.r.below(9) { 0 | 1 => (0, 1), 2 | 3 => (0, self.r.range(2, 3)), 4 | 5 => (0, 0), 6 | 7 => (1, self.r.range(1, 3)), _ => (self.r.below(2), *self.r.pick(&[65536usize, 4294967296, 9999999999999999, usize::MAX])) };
                    El::Opt(items, lo, hi)
                }
                3 if self.c.ellipsis => El::Ellipsis,
                4 if self.c.vars && !self.bound_vars.is_empty() => { let (n, _) = *self.r.pick(&self.bound_vars.clone()); El::Var(n, None) }
                _ => self.seg_el(true),
            };
            v.push(e);
        }
        if self.c.bounds && self.r.chance(1, 5) { if before { v.insert(0, El::WordB) } else { v.push(El::WordB) } }
        v
    }
    pub fn env(&mut self) -> Env { Env { before: self.env_side(true), after: self.env_side(false) } }
    pub fn env_nonempty(&mut self) -> Env { for _ in 0..20 { let e = self.env(); if !e.before.is_empty() || !e.after.is_empty() { return e } } Env { before: vec![El::WordB], after: vec![] } }
    pub fn env_block(&mut self, required: bool, allow_sets: bool) -> EnvBlock {
        if !required && self.r.chance(2, 5) { return EnvBlock::None }
        if self.c.special_env && self.r.chance(1, 12) {
            let n = self.r.range(1, 2);
            let mut v: Vec<El> = (0..n).map(|_| match self.r.below(8) { 0 if self.c.sylls => El::Syll(None, None), 1 if self.c.bounds => El::SyllB, 2 if self.c.opts => El::Opt(vec![self.seg_el(false)], 0, 1), _ => self.seg_el(false) }).collect();
            if v.iter().all(|e| *e == El::SyllB) { v.push(self.seg_el(false)) }
            if self.r.chance(1, 3) { v.insert(0, El::WordB) }
            return EnvBlock::Special(v)
        }
        let one = |g: &mut Self| -> EnvSpec { if allow_sets && g.c.env_sets && g.r.chance(1, 6) { let k = *g.r.pick(&[1usize, 2, 2, 2, 3]); EnvSpec::Set((0..k).map(|_| g.env_nonempty()).collect()) } else { EnvSpec::One(g.env_nonempty()) } };
        // now and then two or three environments in one block (`/ #_, _#`)
        let k = if self.c.condensed && self.r.chance(1, 7) { self.r.range(2, 3) } else { 1 };
        EnvBlock::List((0..k).map(|_| one(self)).collect())
    }
    /// output element for an input element (substitution)
    fn out_for(&mut self, inp: &El) -> El {
        match inp {
            El::Syll(..) | El::Struct(..) if self.r.chance(1, 5) && self.bound_vars.iter().any(|v| v.1) => { let sv: Vec<u8> = self.bound_vars.iter().filter(|v| v.1).map(|v| v.0).collect(); El::Var(*self.r.pick(&sv), if self.r.chance(1, 3) { Some(Mods::one("stress", self.binval())) } else { None }) }
            // a syllable replaced by a structure (`% > ⟨han⟩`)
            El::Syll(..) | El::Struct(..) if self.c.structs && self.r.chance(1, 6) => El::Struct((0..self.r.range(1, 3)).map(|_| El::Ipa(rand_seg(self.r), None)).collect(), if self.r.chance(1, 4) { Some(Mods { feats: vec![], tone: Some(*self.r.pick(&RULE_TONES)) }) } else { None }, None),
            El::Syll(..) | El::Struct(..) => El::Mat(Mods { feats: vec![(if self.r.chance(1, 2) { "stress".into() } else { "sec.stress".into() }, self.binval())], tone: if self.r.chance(1, 3) { Some(*self.r.pick(&RULE_TONES)) } else { None } }, None),
            El::SyllB => El::SyllB,
            El::Set(v) => match self.r.below(4) { 0 | 1 => El::Set(v.iter().map(|_| El::Ipa(rand_seg(self.r), None)).collect()), 2 => El::Set(v.iter().map(|m| match m { El::Syll(..) | El::SyllB => El::Mat(Mods { feats: vec![], tone: Some(*self.r.pick(&RULE_TONES)) }, None), _ => if self.r.chance(1, 2) { El::Mat(self.set_mods(false), None) } else { El::Ipa(rand_seg(self.r), None) } }).collect()), _ => El::Mat(self.set_mods(true), None) },
            _ => match self.r.below(4) { 0 | 1 => El::Mat(self.set_mods(true), None), 2 => El::Ipa(rand_seg(self.r), if self.r.chance(1, 6) { Some(self.set_mods(true)) } else { None }),
                _ => { let segvars: Vec<u8> = self.bound_vars.iter().filter(|v| !v.1).map(|v| v.0).collect(); if !segvars.is_empty() { let m = if self.r.chance(1, 3) { Some(self.set_mods(true)) } else { None }; El::Var(*self.r.pick(&segvars), m) } else { El::Ipa(rand_seg(self.r), None) } } },
        }
    }
    pub fn rule(&mut self) -> Rule {
        self.next_var = 1; self.bound_alphas.clear(); self.bound_vars.clear();
        let kinds: Vec<usize> = (0..4).filter(|k| self.c.kinds[*k]).collect();
        // substitution is the most common kind
        let kind = if self.c.kinds[0] && self.r.chance(1, 2) { 0 } else { *self.r.pick(&kinds) };
        match kind {
            0 => {
                let hi = if self.r.chance(1, 4) { 3 } else { 1 };
                let n = self.r.range(1, hi);
                let mut inp: Vec<El> = (0..n).map(|_| self.input_el()).collect();
                if self.c.ellipsis && n >= 2 && self.r.chance(1, 10) { inp.insert(1, El::Ellipsis); }
                let ctx = self.env_block(false, true);
                let exc = if self.r.chance(1, 4) { self.env_block(true, true) } else { EnvBlock::None };
                let mut out: Vec<El> = inp.iter().filter(|e| **e != El::Ellipsis).map(|e| self.out_for(e)).collect();
                if inp.contains(&El::Ellipsis) { out = vec![] }
                if out.is_empty() { return Rule { input: vec![Term::Els(inp)], output: vec![Term::Amp], ctx, exc } }
                if self.c.bounds && self.r.chance(1, 14) { let k = self.r.below(out.len() + 1); out.insert(k, El::SyllB); }   // `C > $C`, `V C > V $ C`
                if self.r.chance(1, 10) { let m = if self.r.chance(1, 3) { Some(self.set_mods(true)) } else { None }; out.push(El::Ipa(rand_seg(self.r), m)); }            // longer output: insertion after
                else if out.len() > 1 && self.r.chance(1, 10) { out.pop(); }                        // shorter output: deletion of the rest
                let mut rule = Rule { input: vec![Term::Els(inp)], output: vec![Term::Els(out)], ctx, exc };
                if self.c.condensed && self.r.chance(1, 8) {
                    let extra_in = vec![self.seg_el(false)];
                    let extra_out = vec![self.out_for(&extra_in[0])];
                    rule.input.push(Term::Els(extra_in));
                    if self.r.chance(1, 2) { rule.output.push(Term::Els(extra_out)); }
                }
                rule
            }
            1 => {
                let n = self.r.range(1, 2);
                let mut inp: Vec<El> = (0..n).map(|_| self.input_el()).collect();
                if self.c.ellipsis && n >= 2 && self.r.chance(1, 10) { inp.insert(1, El::Ellipsis); }          // `a ... b > *`
                let mut input = vec![Term::Els(inp)];
                if self.c.condensed && self.r.chance(1, 8) { input.push(Term::Els(vec![self.seg_el(false)])); }   // `a, i > *`
                Rule { input, output: vec![Term::Star], ctx: self.env_block(false, true), exc: if self.r.chance(1, 4) { self.env_block(true, true) } else { EnvBlock::None } }
            }
            2 => {
                // one environment; now and then two (`* > a / _#, #_`) or the mirrored form (`* > e / _,#`)
                let ctx = if self.c.special_env && self.r.chance(1, 14) { EnvBlock::Special(vec![if self.r.chance(1, 2) { El::WordB } else { self.seg_el(false) }]) }
                          else if self.c.condensed && self.r.chance(1, 10) { EnvBlock::List(vec![EnvSpec::One(self.env_nonempty()), EnvSpec::One(self.env_nonempty())]) }
                          else { EnvBlock::List(vec![EnvSpec::One(self.env_nonempty())]) };
                let n = self.r.range(1, 2);
                let mut out: Vec<El> = Vec::new();
                for _ in 0..n {
                    out.push(match self.r.below(8) {
                        0 if self.c.bounds => El::SyllB,
                        1 if self.c.structs => El::Struct((0..self.r.range(1, 3)).map(|_| El::Ipa(rand_seg(self.r), if self.r.chance(1, 6) { Some(Mods { feats: vec![], tone: Some(*self.r.pick(&RULE_TONES)) }) } else { None })).collect(), match self.r.below(6) { 0 | 1 => Some(Mods::one("stress", FV::Pos)), 2 => Some(Mods { feats: vec![], tone: Some(*self.r.pick(&RULE_TONES)) }), _ => None }, None),
                        2 if !self.bound_vars.is_empty() => { let (n, _) = *self.r.pick(&self.bound_vars.clone()); El::Var(n, if self.r.chance(1, 3) { Some(Mods::one(if self.r.chance(1, 2) { "long" } else { "stress" }, self.binval())) } else { None }) }
                        3 if self.c.sylls && self.r.chance(1, 3) => El::Syll(None, None),
                        _ => El::Ipa(rand_seg(self.r), if self.r.chance(1, 8) { Some(Mods::one("long", FV::Pos)) } else { None }),
                    });
                }
                Rule { input: vec![Term::Star], output: vec![Term::Els(out)], ctx, exc: if self.r.chance(1, 5) { EnvBlock::List(vec![EnvSpec::One(self.env_nonempty())]) } else { EnvBlock::None } }
            }
            _ => {
                let mut inp: Vec<El> = vec![self.input_el()];
                if self.c.ellipsis && self.r.chance(1, 3) { inp.push(El::Ellipsis); }
                inp.push(self.input_el());
                if self.r.chance(1, 5) { inp.push(self.input_el()); }
                let mut input = vec![Term::Els(inp)];
                if self.c.condensed && self.r.chance(1, 10) { input.push(Term::Els(vec![self.seg_el(false), self.seg_el(false)])); }   // `s t, k p > &`
                Rule { input, output: vec![Term::Amp], ctx: self.env_block(false, true), exc: EnvBlock::None }
            }
        }
    }
}

pub fn rand_rule(r: &mut Rng, c: &RuleCfg) -> Rule { RuleGen::new(r, *c).rule() }

// ------------------------------------------------------------------------------------------ corpus harvested from the tree under test
/// rule strings and words inside src/rule.rs's tests and doc/doc.md's examples (realistic seeds)
pub fn harvest(repo: &str) -> (Vec<String>, Vec<String>) {
    let mut rules: Vec<String> = Vec::new();
    let mut words: Vec<String> = Vec::new();
    if let Ok(t) = std::fs::read_to_string(format!("{repo}/src/rule.rs")) {
        for line in t.lines() {
            let l = line.trim();
            // setup_rule("…") and Word::new / setup_word("…")
            for (pat, is_rule) in [("setup_rule(\"", true), ("setup_word(\"", false)] {
                let mut rest = l;
                while let Some(i) = rest.find(pat) {
                    let s = &rest[i + pat.len()..];
                    if let Some(j) = s.find("\")") { let x = s[..j].replace("\\\"", "\""); if is_rule { rules.push(x) } else { words.push(x) } rest = &s[j..]; } else { break }
                }
            }
        }
    }
    if let Ok(t) = std::fs::read_to_string(format!("{repo}/doc/doc.md")) {
        let mut in_code = false;
        for line in t.lines() {
            if line.trim_start().starts_with("```") { in_code = !in_code; continue }
            if in_code && (line.contains(" > ") || line.contains(" => ") || line.contains(" -> ")) && !line.contains("(becomes)") {
                let l = line.split("  (").next().unwrap_or(line).trim();
                let l = l.split(" (").next().unwrap_or(l).trim();
                if !l.is_empty() && l.chars().count() < 120 { rules.push(l.to_string()); }
            }
        }
    }
    rules.sort(); rules.dedup(); words.sort(); words.dedup();
    (rules, words)
}
