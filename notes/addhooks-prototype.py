import re,sys
files=['src/subrule.rs','src/syll.rs','src/word.rs','src/lexer.rs','src/parser.rs','src/alias/lexer.rs','src/alias/parser.rs']
site=0; table=[]
for f in files:
    lines=open(f).read().split('\n'); out=[]; in_tests=False
    for i,l in enumerate(lines):
        out.append(l)
        if re.match(r'\s*#\[cfg\(test\)\]',l): in_tests=True
        if in_tests: continue
        s=l.strip()
        if re.match(r"^('\w+:\s*)?(loop|while\b.*)\s*\{$",s) or (f=='src/subrule.rs' and re.match(r"^for\b.*\{$",s)):
            site+=1; ind=re.match(r'\s*',l).group(0)+'    '
            out.append(f'{ind}#[cfg(feature = "verif")] crate::verif::tick({site});')
            table.append((site,f,i+1,s[:60]))
    open(f,'w').write('\n'.join(out))
open('sites.txt','w').write('\n'.join('%d\t%s:%d\t%s'%t for t in table))
print(site,'sites')
