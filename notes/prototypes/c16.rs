use asca::{run, trace_changes, get_trace_string, RuleGroup, verif};
struct Rng(u64);
impl Rng { fn next(&mut self)->u64{ self.0 ^= self.0<<13; self.0 ^= self.0>>7; self.0 ^= self.0<<17; self.0 } fn below(&mut self,n:usize)->usize{ (self.next()%(n as u64)) as usize } }
fn main(){
    std::panic::set_hook(Box::new(|_|{}));
    let rules:Vec<String>=std::fs::read_to_string("rules.txt").unwrap().lines().map(|s|s.to_string()).collect();
    let words:Vec<String>=std::fs::read_to_string("words.txt").unwrap().lines().map(|s|s.to_string()).collect();
    let n:usize=std::env::args().nth(1).unwrap().parse().unwrap(); let mut rng=Rng(88172645463325252);
    let (mut cases,mut bad,mut reported,mut errboth,mut errmismatch,mut c11bad,mut c11n)=(0u64,0u64,0u64,0u64,0u64,0u64,0u64);
    for _ in 0..n {
        let k=1+rng.below(5);
        let groups:Vec<RuleGroup>=(0..k).map(|i|{ let m=rng.below(3); RuleGroup::from(format!("g{i}"),(0..m).map(|_|rules[rng.below(rules.len())].clone()).collect(),String::new())}).collect();
        let nw=1+rng.below(3); let phrase:Vec<String>=(0..nw).map(|_|words[rng.below(words.len())].clone()).collect(); let ptxt=phrase.join(" ");
        verif::set_budget(2_000_000);
        let r=std::panic::catch_unwind(||{ let full=run(&groups,&[ptxt.clone()],&[],&[]); let tr=trace_changes(&groups,ptxt.clone(),&[]); let ts=get_trace_string(&groups,ptxt.clone(),&[]); (full,tr,ts) });
        let Ok((full,tr,ts))=r else {continue};
        cases+=1;
        match (&full,&tr) { (Err(_),Err(_))=>{errboth+=1; continue}, (Ok(_),Err(_))|(Err(_),Ok(_))=>{errmismatch+=1; if errmismatch<4 {println!("ERR MISMATCH groups={:?} phrase={ptxt} run_ok={} trace_ok={}",groups.iter().map(|g|g.rule.clone()).collect::<Vec<_>>(),full.is_ok(),tr.is_ok());} continue}, _=>{} }
        let full=full.unwrap(); let tr=tr.unwrap(); let ts=ts.unwrap();
        // prefix runs
        let mut prev=run(&[],&[ptxt.clone()],&[],&[]).unwrap()[0].clone(); let mut ti=0; let mut ok=true; let mut last_idx:isize=-1;
        for i in 0..k { let cur=run(&groups[..=i],&[ptxt.clone()],&[],&[]).unwrap()[0].clone();
            let rep = ti<tr.len() && tr[ti].rule_index==i;
            if rep { if (tr[ti].rule_index as isize)<=last_idx {ok=false} last_idx=i as isize;
                let after:String=tr[ti].after.iter().map(|w|verif::render_word(w,&[]).unwrap()).collect::<Vec<_>>().join(" ");
                if after!=cur {ok=false; println!("AFTER MISMATCH i={i} trace={after} run={cur}");}
                if cur==prev { /* reported but rendered equal: may differ structurally */ }
                ti+=1; reported+=1;
            } else if cur!=prev { ok=false; println!("UNREPORTED CHANGE i={i} {prev} -> {cur} groups={:?}",groups.iter().map(|g|g.rule.clone()).collect::<Vec<_>>()); }
            prev=cur; }
        if ti!=tr.len() {ok=false}
        if prev!=full[0] {ok=false}
        if ts.len()!=2*tr.len() {ok=false; println!("TRACE STRING LEN {} vs {}",ts.len(),tr.len());}
        if !ok {bad+=1}
        // C11: independence
        let each:Vec<String>=phrase.iter().map(|w|run(&groups,&[w.clone()],&[],&[]).map(|v|v[0].clone()).unwrap_or("<ERR>".into())).collect();
        c11n+=1; if each.join(" ")!=full[0] { c11bad+=1; if c11bad<4 {println!("C11 phrase {ptxt:?}: joined={:?} full={:?}",each.join(" "),full[0]);} }
    }
    println!("cases={cases} reported_changes={reported} bad={bad} err_both={errboth} err_mismatch={errmismatch} c11 n={c11n} bad={c11bad}");
}
