use asca::{run, RuleGroup, Place, Segment, NodeKind};
fn main(){
    let t=std::time::Instant::now();
    let r = run(&[RuleGroup::from_rules(vec!["a > e / _t".to_string()])], &["pat".to_string(), "t̪ˠa".to_string()], &[], &["a:[+str] > a @{acute}".to_string()]);
    println!("{:?} {:?}", r.is_ok(), t.elapsed());
    let mut p = Place::default();
    for x in 0..64u32 { *p = Some((x*1031) as u16); let _=(p.get_labial(),p.get_coronal(),p.get_dorsal(),p.get_pharyngeal()); p.set_labial(Some(1)); p.set_pharyngeal(None); }
    let mut s = Segment::default(); s.set_feat(NodeKind::Dorsal, 0b10, true); println!("{:?}", s.get_node(NodeKind::Dorsal));
    println!("{:?}", t.elapsed());
}
