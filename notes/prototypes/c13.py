import json, subprocess, re
src=open('/repo/src/error/mod.rs').read()
blk=src[src.index('FEAT_VARIANTS: [&str; 171] = ['):]; blk=blk[blk.index('= [')+3:blk.index('];')]
# group by source line => each line is one feature
groups=[]
for line in blk.split('\n'):
    line=line.split('//')[0]
    v=re.findall(r'"([^"]+)"',line)
    if v: groups.append(v)
# delayedrelease spans 1 line; ok
print(len(groups), sum(len(g) for g in groups))
words=[l.strip() for l in open('/tmp/scr/words.txt') if l.strip()][:150]
p=subprocess.Popen(['/tmp/scr/target/release/drv'],stdin=subprocess.PIPE,stdout=subprocess.PIPE,text=True)
def run(req):
    p.stdin.write(json.dumps(req)+'\n'); p.stdin.flush(); return json.loads(p.stdout.readline())
bad=0
for g in groups:
    canon=g[0]
    node = canon in ('root','manner','laryngeal')
    supra = canon in ('long','overlong','stress','secondarystress')
    for pol in '+-':
        tm = '[%s%s] > [+nasal]' if not supra else '[%s%s] > [+nasal]'
        base=run({'rules':[[tm%(pol,canon)]],'words':words,'each':True})
        baseA=run({'rules':[],'words':words,'from':['[%s%s] > Q'%(pol,canon)],'each':True})
        for v in g[1:]:
            for sp in (v, ' '.join(v)):
                r=run({'rules':[[tm%(pol,sp)]],'words':words,'each':True})
                if r!=base: bad+=1; print('RULE-LEXER DIFF',canon,repr(sp),pol, [ (a,b) for a,b in zip(base.get('each',[base]),r.get('each',[r])) if a!=b][:1])
            r=run({'rules':[],'words':words,'from':['[%s%s] > Q'%(pol,v)],'each':True})
            if r!=baseA: bad+=1; print('ALIAS-LEXER DIFF',canon,v,pol,[ (a,b) for a,b in zip(baseA.get('each',[baseA]),r.get('each',[r])) if a!=b][:1])
print('bad',bad)
# symbol synonyms in positions
tests=[('a > e','a => e'),('a > e','a -> e'),('a > e | p_','a > e // p_'),('a > * / _#','a > ∅ / _#'),('* > e / _#','∅ > e / _#'),('r...l > &','r..l > &'),('r...l > &','r…l > &'),('⟨..a⟩ > [+stress]','<..a> > [+stress]'),
 ('a > e','a > e ;; c'),('a > *','a > * ;; c'),('pa > &','pa > & ;; c'),('a > e / _#','a > e / _# ;; c'),('a > e | _#','a > e | _# ;; c'),('a > * / _#','a > * / _#;;c'),('* > e / _#','* > e / _# ;; c'),('a > * | p_','a > * // p_'),('pa > & | _#','pa > & // _#'),('[+voice] > [-voice]','[ + voice ] > [ - voice ]'),('V:[Along] > [Along]','V:[αlong] > [αlong]'),('V=1 C=2 > 2 1','V=7 C=3 > 3 7'),('a > e / :{ _t, p_ }:','a > e / :{_t,p_}:')]
for a,b in tests:
    ra=run({'rules':[[a]],'words':words,'each':True}); rb=run({'rules':[[b]],'words':words,'each':True})
    if ra!=rb: print('SYN DIFF',repr(a),repr(b), [(x,y) for x,y in zip(ra['each'],rb['each']) if x!=y][:1])
