use asca::{Place, Segment, NodeKind};
fn wf(x:Option<u16>)->bool{ match x { None=>true, Some(p)=> p!=0 && (p&0x8000!=0 || p&0x0c00==0) && (p&0x4000!=0 || p&0x0300==0) && (p&0x2000!=0 || p&0x00fc==0) && (p&0x1000!=0 || p&0x0003==0) && p&0xf000!=0 } }
fn gets(p:&Place)->[Option<u8>;4]{ [p.get_labial(),p.get_coronal(),p.get_dorsal(),p.get_pharyngeal()] }
fn set(p:&mut Place,i:usize,v:Option<u8>){ match i {0=>p.set_labial(v),1=>p.set_coronal(v),2=>p.set_dorsal(v),_=>p.set_pharyngeal(v)} }
fn main(){
    let maxv=[3u8,3,63,3]; let mut bad=0u64; let mut n=0u64; let mut wfn=0u64;
    let mut starts:Vec<Option<u16>>=(0..=65535u32).map(|x|Some(x as u16)).collect(); starts.push(None);
    for st in &starts { let iswf=wf(*st); if iswf {wfn+=1}
        for i in 0..4 { let mut vals:Vec<Option<u8>>=(0..=maxv[i]).map(Some).collect(); vals.push(None);
            for v in vals { let mut p=Place::default(); *p=*st; let before=gets(&p); set(&mut p,i,v); let after=gets(&p); n+=1;
                if after[i]!=v { bad+=1; if bad<10 {println!("get-after-set: start={st:?} node={i} v={v:?} got={:?}",after[i]);} }
                for j in 0..4 { if j!=i && after[j]!=before[j] { bad+=1; if bad<10 {println!("interference: start={st:?} set node {i}={v:?} changed node {j}: {:?}->{:?}",before[j],after[j]);} } }
                if iswf { if !wf(*p) { bad+=1; if bad<10 {println!("not closed: start={st:?} node={i} v={v:?} -> {:?}",*p);} }
                          if after.iter().all(|x|x.is_none()) && p.is_some() { bad+=1; if bad<10 {println!("no nodes but Some: start={st:?} node={i} v={v:?} -> {:?}",*p);} } }
            } } }
    println!("place: setter calls={n} wellformed_starts={wfn} bad={bad}");
    // segment feats
    let feats:[(NodeKind,u8);26]=[(NodeKind::Root,4),(NodeKind::Root,2),(NodeKind::Root,1),(NodeKind::Manner,128),(NodeKind::Manner,64),(NodeKind::Manner,32),(NodeKind::Manner,16),(NodeKind::Manner,8),(NodeKind::Manner,4),(NodeKind::Manner,2),(NodeKind::Manner,1),(NodeKind::Laryngeal,4),(NodeKind::Laryngeal,2),(NodeKind::Laryngeal,1),(NodeKind::Labial,2),(NodeKind::Labial,1),(NodeKind::Coronal,2),(NodeKind::Coronal,1),(NodeKind::Dorsal,32),(NodeKind::Dorsal,16),(NodeKind::Dorsal,8),(NodeKind::Dorsal,4),(NodeKind::Dorsal,2),(NodeKind::Dorsal,1),(NodeKind::Pharyngeal,2),(NodeKind::Pharyngeal,1)];
    let mut m=0u64; let mut bad2=0u64;
    for st in starts.iter().filter(|s|wf(**s)).step_by(7) { for root in 0..8u8 { for lar in 0..8u8 { for man in [0u8,0x55,0xaa,0xff] {
        let mut s=Segment::default(); s.root=root; s.laryngeal=lar; s.manner=man; *s.place=*st;
        for (fi,(nk,mask)) in feats.iter().enumerate() { for pos in [true,false] {
            let mut t=s; let node_before=t.get_node(*nk); t.set_feat(*nk,*mask,pos); m+=1;
            let expect_present = node_before.is_some() || pos;
            if expect_present { if !t.feat_match(*nk,*mask,pos) {bad2+=1; if bad2<10 {println!("feat not matching after set {fi} {pos} {s:?}");}} } else if t!=s { bad2+=1; if bad2<10 {println!("neg on absent node changed seg");} }
            for (fj,(nk2,mask2)) in feats.iter().enumerate() { if fj==fi {continue}
                let b=s.get_feat(*nk2,*mask2); let a=t.get_feat(*nk2,*mask2);
                let same_node = nk2==nk;
                let ok = if b==a {true} else { same_node && b.is_none() && a==Some(0) && pos };
                if !ok { bad2+=1; if bad2<10 {println!("feat interference f{fi}->{fj} pos={pos} {b:?}->{a:?}");} } }
        } } } } } }
    println!("segment: set_feat calls={m} bad={bad2}");
}
