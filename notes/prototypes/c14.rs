use asca::{verif, RuleGroup};
use std::collections::BTreeMap;
struct Rng(u64);
impl Rng { fn next(&mut self)->u64{ self.0 ^= self.0<<13; self.0 ^= self.0>>7; self.0 ^= self.0<<17; self.0 } fn below(&mut self,n:usize)->usize{ (self.next()%(n as u64)) as usize } fn pick<'a>(&mut self,v:&'a [&'a str])->&'a str{ v[self.below(v.len())] } }
fn flat(w:&verif::Word)->Vec<asca::Segment>{ w.syllables.iter().flat_map(|s|s.segments.iter().cloned()).collect() }
fn pros(w:&verif::Word)->Vec<(usize,String,u16)>{ w.syllables.iter().map(|s|(s.segments.len(),format!("{}",s.stress),s.tone)).collect() }
fn main(){
    std::panic::set_hook(Box::new(|_|{}));
    let words:Vec<String>=std::fs::read_to_string("words.txt").unwrap().lines().map(|s|s.to_string()).collect();
    let n:usize=std::env::args().nth(1).unwrap().parse().unwrap(); let mut rng=Rng(0x2545F4914F6CDD1D);
    let segm=["a","i","t","s","V","C","[+voice]","[-cont]","{p,t,k}","O","N","[]","V:[+long]","C:[+stress]"];
    let segout_m=["[+voice]","[-voice]","[+nasal]","[+hi, -lo]","[-round]","[+round]","[-place]","[+cont, -delrel]"];
    let segout_i=["e","o","x","m","ʔ"];
    let envs=["","/ _#","/ #_","/ V_V","/ _$","/ $_","/ _C","| _s","/ _%:[+stress]","/ V(C,0:2)_","/ _...a","/ :{ _t, s_ }:","/ ⟨..V⟩_","| #_#"];
    let pros_rules=["% > [+stress]","%:[+stress] > [-stress]","% > [tone: 35]","V > [+stress]","C > [+sec.stress] / _#","V:[+long] > [tone: 5]","$ > * / V_V","$ > *","* > $ / V_CV","* > $ / VC_CV","$C > & / _#","$C > &","C$ > &","V$ > & / _C","% > [-stress, tone: 0] / _%","%:[tone: 51] > [tone: 15]"];
    let mut stats:BTreeMap<&str,(u64,u64,u64)>=BTreeMap::new(); let mut ex:BTreeMap<String,(u64,String)>=BTreeMap::new();
    for it in 0..n {
        let (class,rule)= if it%2==0 { let k=1+rng.below(2); let ins:Vec<&str>=(0..k).map(|_|rng.pick(&segm)).collect(); let usem=rng.below(2)==0;
                let outs:Vec<&str>=(0..k).map(|_| if usem {rng.pick(&segout_m)} else {rng.pick(&segout_i)}).collect();
                (if usem {"seg-only/matrix"} else {"seg-only/ipa"}, format!("{} > {} {}",ins.join(" "),outs.join(" "),rng.pick(&envs))) }
            else { ("prosody-only", format!("{} {}", rng.pick(&pros_rules), if rng.below(3)==0 {rng.pick(&envs[7..8])} else {""})) };
        let Ok(Ok(pr))=std::panic::catch_unwind(||verif::parse_rules(&[RuleGroup::from_rules(vec![rule.clone()])])) else { continue };
        for _ in 0..6 { let wt=&words[rng.below(words.len())]; let Ok(w)=verif::parse_word(wt,&[]) else {continue}; if w.syllables.is_empty(){continue}
            verif::set_budget(500_000);
            let Ok(Ok(st))=std::panic::catch_unwind(std::panic::AssertUnwindSafe(||verif::apply_structural(&pr,&w))) else {continue};
            let o=&st[0]; let e=stats.entry(class).or_insert((0,0,0)); e.0+=1; if *o!=w {e.1+=1}
            let has_long = w.syllables.iter().any(|s| s.segments.iter().zip(s.segments.iter().skip(1)).any(|(a,b)|a==b));
            let bad = match class { "prosody-only" => flat(o)!=flat(&w),
                "seg-only/matrix" => pros(o)!=pros(&w),
                _ => { let (a,b)=(pros(o),pros(&w)); if has_long { a.iter().map(|x|(&x.1,x.2)).ne(b.iter().map(|x|(&x.1,x.2))) } else { a!=b } } };
            if bad { e.2+=1; let key=format!("{class} | {rule}"); let en=ex.entry(key).or_insert((0,String::new())); en.0+=1; if en.1.is_empty(){en.1=format!("{wt} -> {}",verif::render_word(o,&[]).unwrap());} }
        }
    }
    println!("{stats:?}"); for (k,(c,e)) in ex.iter().take(40) { println!("{c:5} {k}   e.g. {e}"); }
}
