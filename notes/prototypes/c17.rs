use asca::{run, RuleGroup, ASCAError, Error};
fn strip(s:&str)->String{ let mut o=String::new(); let mut it=s.chars().peekable(); while let Some(c)=it.next(){ if c=='\u{1b}' { while let Some(d)=it.next(){ if d=='m'{break} } } else {o.push(c)} } o }
fn main(){
    std::panic::set_hook(Box::new(|_|{}));
    let valid=["a > e / _t","V > [+long] / _#","p, t > b, d","$ > * / V_V",";; comment","C=1 > * / _1"];
    let faults=[ "a > ","> e","a e","a > e / ","a > e / _ _","a > e / _#t","a > e / t#_","[+foo] > e","a > [tone:55555]","a > e / _(C,3:1)","* > *","* > &","a > {e,o}","{a,e} > {o}","a > e / _{}","a > e / _(t","%:[+long] > e","a > 1","a > [Avoice]","a > [-Aplace]","% > a","a > e ;","a > b̃̃̃ʼ","a > e / #","a => e / _ | ","a, b > e, o, u","a > e / _t, _p, _k | x_, y_","a ... > &","V > [+stress, -stress","V > [-long, +overlong]","% > [-stress, +sec.stress]","* > [+voice] / _#","* > e","* > e / :{_#, #_}:","a > e / _ʰ","ʰa > e","a > %","$ > a","a > $$ / _","a:[tone: 1] > [+tone]","[αplace] > [αvoice]","a > [αvoice]","a=x > e","a > e / _=1","é > e","a > e / __ _","a:[+long > e","a > e / _C:","a > e / _C:[", "1 > a", "a > 1:[+long]", "⟨a1⟩ > e", "a > ⟨..⟩", "a > ⟨[+voice]⟩"];
    let (mut n,mut fmt_panic,mut wrongline,mut out_of_span,mut noerr)=(0,0,0,0,0);
    for f in faults { for g in 0..3 { for l in 0..3 {
        let mut groups:Vec<RuleGroup>=(0..3).map(|gi| RuleGroup::from(format!("G{gi}"), (0..3).map(|li| valid[(gi*3+li)%valid.len()].to_string()).collect(), String::new())).collect();
        groups[g].rule[l]=f.to_string();
        let words=vec!["pat.ta".to_string(),"'a.pa:k".to_string()];
        let res=std::panic::catch_unwind(||run(&groups,&words,&[],&[]));
        let Ok(res)=res else { println!("RUN PANIC fault={f:?}"); continue };
        let Err(e)=res else { noerr+=1; continue };
        n+=1;
        let e2=e.clone(); let g2=groups.clone();
        let s=std::panic::catch_unwind(move|| match e2 { Error::RuleSyn(x)=>x.format_rule_error(&g2), Error::RuleRun(x)=>x.format_rule_error(&g2), Error::WordSyn(x)=>x.format_word_error(&[]), Error::WordRun(x)=>x.format_word_error(&[]), _=>String::new() });
        let Ok(s)=s else { fmt_panic+=1; if g==0&&l==0 {println!("FORMAT PANIC fault={f:?} err={}",e.get_error_message());} continue };
        let s=strip(&s);
        let lines:Vec<&str>=s.split('\n').collect();
        // expected: header, '    |     <rule>', '    |     <carets>', '    @ Rule g, Line l'
        if let Some(at)=lines.iter().find(|x|x.trim_start().starts_with("@ Rule")) {
            let nums:Vec<usize>=at.split(|c:char|!c.is_ascii_digit()).filter(|x|!x.is_empty()).map(|x|x.parse().unwrap()).collect();
            if nums!=vec![g+1,l+1] { wrongline+=1; if wrongline<6 {println!("WRONG LINE fault={f:?} planted=({},{}) reported={:?} msg={}",g+1,l+1,nums,e.get_error_message());} }
            let caret=lines.iter().rev().find(|x|x.contains('^')).map(|x|x.strip_prefix("    |     ").unwrap_or(x)).unwrap_or("");
            let width=caret.trim_end().chars().count(); let len=f.chars().count();
            if width>len+1 { out_of_span+=1; if g==0&&l==0 {println!("SPAN OUTSIDE fault={f:?} len={len} caret_end={width} msg={}",e.get_error_message());} }
        } else if !s.contains("Can't delete") { println!("NO POSITION fault={f:?}: {}",lines[0]); }
    }}}
    println!("errors={n} noerr={noerr} fmt_panic={fmt_panic} wrongline={wrongline} out_of_span={out_of_span}");
}
