import json, itertools, random, subprocess, sys
card = json.load(open('/repo/src/cardinals.json'))
INV = ['p','t','k','s','n','a','i','u']
VOI = {'p':'b','t':'d','k':'ɡ','s':'z'}
def feat(g, name):
    s = card[g]
    tbl = {'cons':('root',4),'son':('root',2),'syll':('root',1),'cont':('manner',0x80),'nasal':('manner',0x10),'voice':('laryngeal',4)}
    n,m = tbl[name]; return (s[n] & m) != 0
GROUPS = {'C':[('syll',False)], 'V':[('cons',False),('son',True),('syll',True)], 'O':[('cons',True),('son',False),('syll',False)], 'N':[('cons',True),('son',True),('syll',False),('nasal',True)]}
def elem_match(e, g):
    k = e[0]
    if k=='ipa': return g == e[1]
    if k=='mat': return all(feat(g,f)==v for f,v in e[1])
    if k=='grp': return all(feat(g,f)==v for f,v in GROUPS[e[1]])
    if k=='set': return any(elem_match(x,g) for x in e[1])
    raise Exception(k)
def pe(e):
    k=e[0]
    if k=='ipa': return e[1]
    if k=='mat': return '['+', '.join(('+' if v else '-')+f for f,v in e[1])+']'
    if k=='grp': return e[1]
    if k=='set': return '{'+', '.join(pe(x) for x in e[1])+'}'
    if k in ('#','$'): return k
def penv(b,a): return ' '.join(pe(x) for x in b)+' _ '+' '.join(pe(x) for x in a)
def prule(r):
    s = pe(r['inp'])+' > '+pe(r['out'])
    if r['ctx'] is not None:
        c=r['ctx']
        s += ' / ' + (penv(*c[0]) if len(c)==1 else ':{ '+', '.join(penv(*x) for x in c)+' }:')
    if r['exc'] is not None:
        c=r['exc']
        s += ' | ' + (penv(*c[0]) if len(c)==1 else ':{ '+', '.join(penv(*x) for x in c)+' }:')
    return s
def m_after(elems, cur, sstart, i):
    n=len(cur); p=i+1
    for e in elems:
        if e[0]=='#':
            if p!=n: return False
        elif e[0]=='$':
            if not (p==n or sstart[p]): return False
        else:
            if p>=n or not elem_match(e,cur[p]): return False
            p+=1
    return True
def m_before(elems, cur, sstart, i):
    p=i-1
    for e in reversed(elems):
        if e[0]=='#':
            if p>=0: return False
        elif e[0]=='$':
            if not (p<0 or sstart[p+1]): return False
        else:
            if p<0 or not elem_match(e,cur[p]): return False
            p-=1
    return True
def envs_match(envs, cur, sstart, i):
    return any(m_before(b,cur,sstart,i) and m_after(a,cur,sstart,i) for b,a in envs)
def adj_equal(cur, sstart):
    return any(cur[j]==cur[j+1] and not sstart[j+1] for j in range(len(cur)-1))
def apply_out(out, g):
    if out[0]=='ipa': return out[1]
    if out[0]=='mat':
        assert out[1]==[('voice',True)]
        return VOI.get(g,g)
def ref(rule, sylls):
    cur=[g for s in sylls for g in s]; sstart=[]
    for s in sylls: sstart += [True]+[False]*(len(s)-1)
    if adj_equal(cur,sstart): return None
    for i in range(len(cur)):
        if not elem_match(rule['inp'],cur[i]): continue
        if rule['ctx'] is not None and not envs_match(rule['ctx'],cur,sstart,i): continue
        if rule['exc'] is not None and envs_match(rule['exc'],cur,sstart,i): continue
        cur[i]=apply_out(rule['out'],cur[i])
        if adj_equal(cur,sstart): return None
    out=[];k=0
    for s in sylls: out.append(''.join(cur[k:k+len(s)])); k+=len(s)
    return '.'.join(out)
def words(maxlen):
    for L in range(1,maxlen+1):
        for seq in itertools.product(INV, repeat=L):
            for cuts in itertools.product([0,1], repeat=L-1):
                sy=[[seq[0]]]
                for j in range(1,L):
                    if cuts[j-1]: sy.append([seq[j]])
                    else: sy[-1].append(seq[j])
                yield sy
ELEMS = [('ipa','p'),('ipa','a'),('ipa','n'),('grp','V'),('grp','C'),('mat',[('voice',True)]),('mat',[('cont',False),('syll',False)]),('set',[('ipa','t'),('ipa','i')]),('set',[('grp','V'),('ipa','n')])]
def side(rng, before, maxn):
    n=rng.randint(0,maxn); els=[]
    for _ in range(n):
        r=rng.random()
        els.append(('$',) if r<0.2 else rng.choice(ELEMS))
    if rng.random()<0.2:
        els = ([('#',)]+els) if before else (els+[('#',)])
    return els
def env(rng,maxn):
    while True:
        b=side(rng,True,maxn); a=side(rng,False,maxn)
        if b or a: return (b,a)
def envset(rng,maxn):
    return [env(rng,maxn)] if rng.random()<0.8 else [env(rng,maxn),env(rng,maxn)]
def gen_rule(rng,maxn):
    inp=rng.choice(ELEMS)
    if rng.random()<0.25 and inp in [('ipa','p'),('mat',[('cont',False),('syll',False)])]:
        out=('mat',[('voice',True)])
    else: out=('ipa',rng.choice(['e','o','x','m']))
    ctx=envset(rng,maxn) if rng.random()<0.8 else None
    exc=envset(rng,maxn) if rng.random()<0.5 else None
    return {'inp':inp,'out':out,'ctx':ctx,'exc':exc}
if __name__=='__main__':
    nrules=int(sys.argv[1]); maxlen=int(sys.argv[2]); maxn=int(sys.argv[3]); seed=int(sys.argv[4])
    rng=random.Random(seed)
    W=list(words(maxlen)); print('words',len(W),file=sys.stderr)
    p=subprocess.Popen(['/tmp/scr/target/release/drv'],stdin=subprocess.PIPE,stdout=subprocess.PIPE,text=True)
    tot=0;dis=0;skip=0;changed=0; shown=0; errs=0
    for ri in range(nrules):
        r=gen_rule(rng,maxn); rs=prule(r)
        ws=['.'.join(''.join(s) for s in w) for w in W]
        p.stdin.write(json.dumps({'rules':[[rs]],'words':ws,'each':True})+'\n'); p.stdin.flush()
        res=json.loads(p.stdout.readline())
        if 'each' not in res: print('PANIC/other',rs,res); continue
        for w,wt,o in zip(W,ws,res['each']):
            e=ref(r,w)
            if e is None: skip+=1; continue
            tot+=1
            if e!=wt: changed+=1
            got=o.get('ok')
            if got is None: errs+=1
            if got!=e:
                dis+=1
                if shown<40: print('DISAGREE rule=%r word=%s ref=%s asca=%s'%(rs,wt,e,o)); shown+=1
    print('total',tot,'changed',changed,'skipped',skip,'errs',errs,'disagree',dis)
