use asca::{verif, RuleGroup, Segment};
use std::collections::BTreeMap;
// independent bit model: (node, mask). node: 0 root,1 manner,2 lar,3 lab,4 cor,5 dor,6 phr
const F:[(&str,u8,u16);26]=[("cons",0,4),("son",0,2),("syll",0,1),("cont",1,128),("approx",1,64),("lat",1,32),("nasal",1,16),("delrel",1,8),("strid",1,4),("rhotic",1,2),("click",1,1),("voice",2,4),("sg",2,2),("cg",2,1),("labdent",3,2),("round",3,1),("ant",4,2),("dist",4,1),("front",5,32),("back",5,16),("hi",5,8),("lo",5,4),("tense",5,2),("red",5,1),("atr",6,2),("rtr",6,1)];
#[derive(Clone,Copy,PartialEq,Debug)] struct M{root:u8,man:u8,lar:u8,sub:[Option<u8>;4]}
fn to_m(s:&Segment)->M{ let p=*s.place; let g=|bit:u16,sh:u16,mask:u16| p.and_then(|x| if x&bit!=0 {Some(((x>>sh)&mask) as u8)} else {None}); M{root:s.root,man:s.manner,lar:s.laryngeal,sub:[g(0x8000,10,3),g(0x4000,8,3),g(0x2000,2,63),g(0x1000,0,3)]} }
fn get(m:&M,node:u8)->Option<u8>{ match node {0=>Some(m.root),1=>Some(m.man),2=>Some(m.lar),n=>m.sub[(n-3) as usize]} }
fn setn(m:&mut M,node:u8,v:u8){ match node {0=>m.root=v,1=>m.man=v,2=>m.lar=v,n=>m.sub[(n-3) as usize]=Some(v)} }
fn m_match(m:&M,node:u8,mask:u16,pos:bool)->bool{ match get(m,node){None=>false,Some(v)=> if pos {v as u16&mask==mask} else {v as u16&mask==0}} }
fn m_set(m:&mut M,node:u8,mask:u16,pos:bool){ if pos { let v=get(m,node).unwrap_or(0); setn(m,node,v|mask as u8) } else if let Some(v)=get(m,node){ setn(m,node,v&!(mask as u8)) } }
fn main(){
    std::panic::set_hook(Box::new(|_|{}));
    let card: BTreeMap<String, serde_json::Value> = serde_json::from_str(&std::fs::read_to_string("/repo/src/cardinals.json").unwrap()).unwrap();
    let dia: Vec<serde_json::Value> = serde_json::from_str(&std::fs::read_to_string("/repo/src/diacritics.json").unwrap()).unwrap();
    let ds:Vec<char>=dia.iter().map(|d|d["diacrit"].as_str().unwrap().chars().next().unwrap()).collect();
    let mut texts:Vec<String>=vec![]; for b in card.keys(){ texts.push(b.clone()); for d in &ds { texts.push(format!("{b}{d}")); } }
    let mut segs=vec![]; for t in &texts { if let Ok(w)=verif::parse_word(t,&[]) { if w.syllables.len()==1 && w.syllables[0].segments.len()==1 { segs.push((t.clone(),w)); } } }
    println!("segments {}",segs.len());
    let (mut n,mut bad)=(0u64,0u64); let mut cls:BTreeMap<String,(u64,String)>=BTreeMap::new();
    let mut note=|k:String,e:String,bad:&mut u64|{ *bad+=1; let en=cls.entry(k).or_insert((0,String::new())); en.0+=1; if en.1.is_empty(){en.1=e;} };
    for (fname,node,mask) in F { for pos in [true,false] { let sign=if pos {'+'} else {'-'};
        let set_rule=verif::parse_rules(&[RuleGroup::from_rules(vec![format!("[] > [{sign}{fname}]")])]).unwrap();
        let match_rule=verif::parse_rules(&[RuleGroup::from_rules(vec![format!("[{sign}{fname}] > [+stress]")])]).unwrap();
        for (t,w) in &segs { let s=w.syllables[0].segments[0]; let m=to_m(&s); n+=2;
            let mut exp=m; m_set(&mut exp,node,mask,pos);
            match verif::apply_structural(&set_rule,w) { Ok(r)=>{ let got=to_m(&r[0].syllables[0].segments[0]); if got!=exp || r[0].syllables[0].segments.len()!=1 { note(format!("SET {sign}{fname}"),format!("{t}: got {got:?} exp {exp:?}"),&mut bad); } }, Err(_)=>note(format!("SET-ERR {sign}{fname}"),t.clone(),&mut bad) }
            let em=m_match(&m,node,mask,pos);
            match verif::apply_structural(&match_rule,w) { Ok(r)=>{ let gm=format!("{}",r[0].syllables[0].stress)=="P"; if gm!=em { note(format!("MATCH {sign}{fname}"),format!("{t}: got {gm} exp {em}"),&mut bad); } }, Err(_)=>note(format!("MATCH-ERR {sign}{fname}"),t.clone(),&mut bad) }
        } } }
    // nodes
    for (nname,idx) in [("lab",0usize),("cor",1),("dor",2),("phr",3)] { for pos in [true,false] { let sign=if pos {'+'} else {'-'};
        let set_rule=verif::parse_rules(&[RuleGroup::from_rules(vec![format!("[] > [{sign}{nname}]")])]).unwrap();
        let match_rule=verif::parse_rules(&[RuleGroup::from_rules(vec![format!("[{sign}{nname}] > [+stress]")])]).unwrap();
        for (t,w) in &segs { let s=w.syllables[0].segments[0]; let m=to_m(&s); n+=2; let mut exp=m; if pos { if exp.sub[idx].is_none(){exp.sub[idx]=Some(0)} } else {exp.sub[idx]=None}
            if let Ok(r)=verif::apply_structural(&set_rule,w){ let got=to_m(&r[0].syllables[0].segments[0]); if got!=exp { note(format!("NODESET {sign}{nname}"),format!("{t}: got {got:?} exp {exp:?}"),&mut bad);} } else {note(format!("NODESET-ERR {sign}{nname}"),t.clone(),&mut bad)}
            let em= m.sub[idx].is_some()==pos;
            if let Ok(r)=verif::apply_structural(&match_rule,w){ let gm=format!("{}",r[0].syllables[0].stress)=="P"; if gm!=em {note(format!("NODEMATCH {sign}{nname}"),format!("{t} got {gm} exp {em}"),&mut bad);} } } } }
    // alpha pairs feature->feature
    let mut na=0u64;
    for (f1,n1,m1) in F { for (f2,n2,m2) in F { for inv in [false,true] {
        let rule=verif::parse_rules(&[RuleGroup::from_rules(vec![format!("[A{f1}] > [{}A{f2}]", if inv {"-"} else {""})])]).unwrap();
        for (t,w) in segs.iter().step_by(7) { let s=w.syllables[0].segments[0]; let m=to_m(&s); na+=1;
            let exp = match get(&m,n1) { None=>m, Some(v)=>{ let val=(v as u16&m1)!=0; let mut e=m; m_set(&mut e,n2,m2,val!=inv); e } };
            match verif::apply_structural(&rule,w){ Ok(r)=>{ let got=to_m(&r[0].syllables[0].segments[0]); if got!=exp { note(format!("ALPHA {f1}->{}{f2}",if inv{"-"}else{""}),format!("{t}: got {got:?} exp {exp:?}"),&mut bad);} }, Err(_)=>note(format!("ALPHA-ERR {f1}->{f2}"),t.clone(),&mut bad) } } } } }
    println!("feature/node cases {n}, alpha cases {na}, bad {bad}, classes {}",cls.len());
    for (k,(c,e)) in cls.iter().take(30){ println!("{c:6} {k}: {e}"); }
}
