import json, random, subprocess, sys, itertools
words=[l.strip() for l in open('/tmp/scr/words.txt') if l.strip()]
p=subprocess.Popen(['/tmp/scr/target/release/drv'],stdin=subprocess.PIPE,stdout=subprocess.PIPE,text=True)
def run(groups, ws):
    p.stdin.write(json.dumps({'rules':groups,'words':ws,'each':True})+'\n'); p.stdin.flush()
    return json.loads(p.stdout.readline())
rng=random.Random(int(sys.argv[1]))
EL=['a','i','t','s','V','C','[+voice]','[+cont]','{p,t,k}','{V,n}','N','O','$']
def cmp(tag, A, B, ws):
    ra=run(A,ws); rb=run(B,ws)
    if 'each' not in ra or 'each' not in rb:
        print(tag,'PANIC',A,B, ra if 'each' not in ra else '', rb if 'each' not in rb else ''); return 0,1
    d=0;ch=0
    for w,a,b in zip(ws,ra['each'],rb['each']):
        if a!=b:
            d+=1
            if d<3: print(tag,'DIFF',A,B,w,a,b)
        if a.get('ok')!=w: ch+=1
    return ch,d
tot=[0,0,0]
# optional vs env-set
for it in range(400):
    X=rng.choice(EL[:-1]); M=rng.randint(0,2); N=M+rng.randint(0,2)
    if N==0: N=1
    pre=' '.join(rng.choice(EL) for _ in range(rng.randint(0,1))); post=' '.join(rng.choice(EL) for _ in range(rng.randint(0,1)))
    inp=rng.choice(['a','V','C','s','{i,u}']); out=rng.choice(['o','x','[+nasal]','*'])
    side=rng.choice(['b','a'])
    def env(k):
        reps=' '.join([X]*k)
        return (pre+' '+reps+' '+post+' _').strip() if side=='b' else ('_ '+pre+' '+reps+' '+post).strip()
    opt='(%s,%d:%d)'%(X,M,N)
    short = (pre+' '+opt+' '+post+' _') if side=='b' else ('_ '+pre+' '+opt+' '+post)
    sep=rng.choice(['/','|'])
    A=[['%s > %s %s %s'%(inp,out,sep,short)]]
    B=[['%s > %s %s :{ %s }:'%(inp,out,sep,', '.join(env(k) for k in range(M,N+1)))]]
    ws=rng.sample(words,60)
    ch,d=cmp('OPT',A,B,ws); tot[0]+=60; tot[1]+=ch; tot[2]+=d
print('opt',tot); tot=[0,0,0]
# special env
for it in range(400):
    n=rng.randint(1,3); xs=[rng.choice(EL+['#']) for _ in range(n)]
    if '#' in xs[1:]: continue
    inp=rng.choice(['a','V','C','s']); out=rng.choice(['o','x','[+nasal]','*'])
    A=[['%s > %s / _,%s'%(inp,out,' '.join(xs))]]
    B=[['%s > %s / %s _ , _ %s'%(inp,out,' '.join(xs),' '.join(reversed(xs)))]]
    ws=rng.sample(words,60)
    ch,d=cmp('SPEC',A,B,ws); tot[0]+=60; tot[1]+=ch; tot[2]+=d
print('spec',tot); tot=[0,0,0]
G={'C':'[-syll]','O':'[+cons, -son, -syll]','S':'[+cons, +son, -syll]','P':'[+cons, -son, -syll, -delrel, -cont]','F':'[+cons, -son, -syll, -approx, +cont]','L':'[+cons, +son, -syll, +approx]','N':'[+cons, +son, -syll, -approx, +nasal]','G':'[-cons, +son, -syll]','V':'[-cons, +son, +syll]'}
for g,mx in G.items():
    for tmpl in ['%s > x','%s > [+long]','a > o / _%s','a > o / %s_','%s > * / _#']:
        A=[[tmpl%g]];B=[[tmpl%mx]]
        ch,d=cmp('GRP',A,B,words); tot[0]+=len(words); tot[1]+=ch; tot[2]+=d
print('grp',tot); tot=[0,0,0]
# condensed
for it in range(300):
    k=rng.randint(2,3)
    ins=[rng.choice(['a','i','V','s','t','C']) for _ in range(k)]; outs=[rng.choice(['o','x','e','[+nasal]']) for _ in range(k)]
    envs=[rng.choice(['_#','#_','_C','V_','_$','t_']) for _ in range(k)]
    form=rng.randint(0,3)
    if form==0: A='%s > %s / %s'%(', '.join(ins),', '.join(outs),envs[0]); B=['%s > %s / %s'%(i,o,envs[0]) for i,o in zip(ins,outs)]
    elif form==1: A='%s > %s / %s'%(ins[0],outs[0],', '.join(envs)); B=['%s > %s / %s'%(ins[0],outs[0],e) for e in envs]
    elif form==2: A='%s > %s / %s'%(', '.join(ins),outs[0],', '.join(envs)); B=['%s > %s / %s'%(i,outs[0],e) for i,e in zip(ins,envs)]
    else: A='%s > %s'%(', '.join(ins),outs[0]); B=['%s > %s'%(i,outs[0]) for i in ins]
    ws=rng.sample(words,60)
    ch,d=cmp('COND',[[A]],[B],ws); tot[0]+=60; tot[1]+=ch; tot[2]+=d
print('cond',tot); tot=[0,0,0]
for it in range(200):
    a=rng.choice(['C','V','[+cons]','O','[+voice]']); b=rng.choice(['C','V','[+son]','N','[-voice]'])
    env=rng.choice(['',' / _#',' / #_',' / _C',' | _s'])
    A=[['%s %s > &%s'%(a,b,env)]]; B=[['%s=1 %s=2 > 2 1%s'%(a,b,env)]]
    ws=rng.sample(words,80)
    ch,d=cmp('MET',A,B,ws); tot[0]+=80; tot[1]+=ch; tot[2]+=d
print('met',tot)
