// throw-away driver: JSONL in -> JSONL out
use asca::{run, RuleGroup, ASCAError};
use std::io::{BufRead, Write};
fn main(){
    std::panic::set_hook(Box::new(|_|{}));
    let stdin=std::io::stdin(); let stdout=std::io::stdout(); let mut out=stdout.lock();
    for line in stdin.lock().lines(){ let line=line.unwrap(); if line.trim().is_empty(){continue}
        let v: serde_json::Value = serde_json::from_str(&line).unwrap();
        let groups: Vec<RuleGroup> = v["rules"].as_array().unwrap().iter().map(|g| RuleGroup::from_rules(g.as_array().unwrap().iter().map(|s|s.as_str().unwrap().to_string()).collect())).collect();
        let words: Vec<String> = v["words"].as_array().unwrap().iter().map(|s|s.as_str().unwrap().to_string()).collect();
        let into: Vec<String> = v.get("into").and_then(|x|x.as_array()).map(|a|a.iter().map(|s|s.as_str().unwrap().to_string()).collect()).unwrap_or_default();
        let from: Vec<String> = v.get("from").and_then(|x|x.as_array()).map(|a|a.iter().map(|s|s.as_str().unwrap().to_string()).collect()).unwrap_or_default();
        let each = v.get("each").and_then(|x|x.as_bool()).unwrap_or(false);
        let res = std::panic::catch_unwind(||{
            if each { // one run per word so one failing word does not hide the others
                let mut o=vec![]; for w in &words { match run(&groups, &[w.clone()], &into, &from){ Ok(r)=>o.push(serde_json::json!({"ok":r[0]})), Err(e)=>o.push(serde_json::json!({"err":e.get_error_message()})) } } serde_json::json!({"each":o})
            } else { match run(&groups,&words,&into,&from){ Ok(r)=>serde_json::json!({"ok":r}), Err(e)=>serde_json::json!({"err":e.get_error_message()}) } }
        });
        let j = match res { Ok(j)=>j, Err(_)=>serde_json::json!({"panic":true}) };
        writeln!(out,"{}",j).unwrap();
    }
}
