import json, subprocess, random, sys, glob, re
p=subprocess.Popen(['/tmp/scr/target/release/drv'],stdin=subprocess.PIPE,stdout=subprocess.PIPE,text=True)
def run(groups,ws,each=True):
    p.stdin.write(json.dumps({'rules':groups,'words':ws,'each':each})+'\n'); p.stdin.flush(); return json.loads(p.stdout.readline())
rules=[l.rstrip('\n') for l in open('/tmp/scr/rules.txt') if l.strip()]
words=[l.strip() for l in open('/tmp/scr/words.txt') if l.strip()]
rng=random.Random(int(sys.argv[1]))
tot=0;bad=0;nontriv=0;skip=0
# known-hang shapes to avoid in this prototype (no tick guard in drv)
def safe(r): return not re.search(r'\(\s*,|^\s*\*\s*>.*\|', r) and '$ > $' not in r
rules=[r for r in rules if safe(r)]
for it in range(int(sys.argv[2])):
    n=rng.randint(2,4); rs=[rng.choice(rules) for _ in range(n)]; k=rng.randint(1,n-1)
    ws=rng.sample(words,40)
    full=run([rs],ws)
    if 'each' not in full: continue
    first=run([rs[:k]],ws)
    mids=[o.get('ok') for o in first['each']]
    ws2=[m if m is not None else 'a' for m in mids]
    second=run([rs[k:]],ws2)
    for w,f,m,s in zip(ws,full['each'],mids,second['each']):
        if m is None or '�' in m: skip+=1; continue
        tot+=1
        if f.get('ok')!=w: nontriv+=1
        if f!=s:
            if ('err' in f) and ('err' in s): continue
            bad+=1
            if bad<15: print('C10 DIFF rules=%r k=%d word=%s mid=%s full=%s staged=%s'%(rs,k,w,m,f,s))
print('tot',tot,'nontrivial',nontriv,'skipped',skip,'bad',bad)
