import json, itertools, subprocess, sys, collections
SOLO=False
LEN=[1,2,3]; STR=['U','P','S']; TONE=[0,5,51,1234]
def word(L,S,T,posn):
    tgt='a'+'ː'*(L-1)
    core={'first':tgt+'t','middle':'p'+tgt+'t','last':'p'+tgt}[posn]
    mark={'U':'.','P':'ˈ','S':'ˌ'}[S]
    if SOLO: return ({'U':'','P':'ˈ','S':'ˌ'}[S])+core+(str(T) if T else '')
    return 'n'+mark+core+(str(T) if T else '')+'.s'
def mods_str(m):
    parts=[]
    for k,name in (('long','long'),('overlong','overlong'),('stress','stress'),('sec','sec.stress')):
        if m[k] is not None: parts.append(('+' if m[k] else '-')+name)
    if m['tone'] is not None: parts.append('tone:%d'%m['tone'])
    return '['+', '.join(parts)+']'
def match_model(m,L,S,T):
    if m['long'] is True and L<2: return False
    if m['long'] is False and L>1: return False
    if m['overlong'] is True and L<3: return False
    if m['overlong'] is False and L>2: return False
    if m['stress'] is True and S=='U': return False
    if m['stress'] is False and S!='U': return False
    if m['sec'] is True and S!='S': return False
    if m['sec'] is False and S=='S': return False
    if m['tone'] is not None and m['tone']!=T: return False
    return True
def set_model(m,L,S,T):
    lo,ov=m['long'],m['overlong']
    if lo is False and ov is True: return 'ERR'
    allowed=set([1,2,3])
    if lo is True: allowed&={2,3}
    if lo is False: allowed&={1}
    if ov is True: allowed&={3}
    if ov is False: allowed&={1,2}
    if L in allowed: nl=L
    else: nl=min(allowed,key=lambda x:abs(x-L))
    st,se=m['stress'],m['sec']
    if st is False and se is True: return 'ERR'
    ns=S
    if st is None and se is None: pass
    elif st is None: ns = 'S' if se else ('U' if S=='S' else S)
    elif se is None: ns = 'P' if st else 'U'
    else: ns = {(True,True):'S',(True,False):'P',(False,False):'U'}[(st,se)]
    nt = T if m['tone'] is None else m['tone']
    return (nl,ns,nt)
def all_mods(syll_only=False):
    tri=[None,True,False]
    for lo,ov,st,se in itertools.product(tri,repeat=4):
        if syll_only and (lo is not None or ov is not None): continue
        for tn in [None]+TONE:
            if lo is None and ov is None and st is None and se is None and tn is None: continue
            yield {'long':lo,'overlong':ov,'stress':st,'sec':se,'tone':tn}
def run(p, rule, ws):
    p.stdin.write(json.dumps({'rules':[[rule]],'words':ws,'each':True})+'\n'); p.stdin.flush()
    return json.loads(p.stdout.readline())
p=subprocess.Popen(['/tmp/scr/target/release/drv'],stdin=subprocess.PIPE,stdout=subprocess.PIPE,text=True)
states=[(L,S,T,posn) for L in LEN for S in STR for T in TONE for posn in ('first','middle','last')]
dis=collections.Counter(); ex={}; tot=0
# --- matching: element kinds
for kind,tmpl in (('ipa','a:%s > [+nasal]'),('grp','V:%s > [+nasal]'),('mat','[+low]%s > [+nasal]'),('syl','%%:%s > [tone: 9]')):
    for m in all_mods(kind=='syl'):
        ms=mods_str(m)
        SOLO=(kind=='syl')
        if kind=='mat': rule='[+low, '+ms[1:]+' > [+nasal]'
        else: rule=tmpl%ms
        ws=[word(*s) for s in states]
        res=run(p,rule,ws)
        if 'each' not in res: dis[('match',kind,'PANIC')]+=1; ex.setdefault(('match',kind,'PANIC'),(rule,)); continue
        for s,w,o in zip(states,ws,res['each']):
            L,S,T,posn=s; tot+=1
            exp=match_model(m,L,S,T)
            if 'ok' not in o:
                key=('match',kind,'ERR',ms); dis[key]+=1; ex.setdefault(key,(rule,w,o)); continue
            got = (o['ok']!=w)
            if got!=exp:
                key=('match',kind,ms,'L%d'%L if (m['long'] is not None or m['overlong'] is not None) else '', S if (m['stress'] is not None or m['sec'] is not None) else ''); dis[key]+=1; ex.setdefault(key,(rule,w,o,exp))
# --- setting
def expect_word(L,S,T,posn,kind):
    return word(L,S,T,posn)
for kind,tmpl in (('ipa','a > %s'),('grp','V > %s'),('syl','%% > %s')):
    for m in all_mods(False):
        ms=mods_str(m)
        SOLO=(kind=='syl')
        rule=tmpl%ms
        ws=[word(*s) for s in states]
        res=run(p,rule,ws)
        if 'each' not in res: dis[('set',kind,'PANIC',ms)]+=1; ex.setdefault(('set',kind,'PANIC',ms),(rule,)); continue
        for s,w,o in zip(states,ws,res['each']):
            L,S,T,posn=s; tot+=1
            mm=dict(m)
            if kind=='syl': mm['long']=None; mm['overlong']=None   # % ignores length? (to be seen)
            exp=set_model(mm,L,S,T)
            if exp=='ERR':
                if 'ok' in o: key=('set',kind,ms,'expected-ERR'); dis[key]+=1; ex.setdefault(key,(rule,w,o))
                continue
            if 'ok' not in o:
                key=('set',kind,ms,'unexpected-ERR'); dis[key]+=1; ex.setdefault(key,(rule,w,o)); continue
            ew=word(exp[0],exp[1],exp[2],posn)
            if o['ok']!=ew:
                key=('set',kind,ms,'L%d'%L, S); dis[key]+=1; ex.setdefault(key,(rule,w,o['ok'],ew))
print('total',tot,'disagree classes',len(dis),'cases',sum(dis.values()))
agg=collections.Counter()
for k,v in dis.items(): agg[k[:2]]+=v
print(agg)
for k in list(dis): print(k,dis[k],ex[k])
