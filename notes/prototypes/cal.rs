use asca::{run, RuleGroup, verif};
fn main(){
    std::panic::set_hook(Box::new(|_|{}));
    let rules:Vec<String>=std::fs::read_to_string("rules.txt").unwrap().lines().map(|s|s.to_string()).collect();
    let words:Vec<String>=std::fs::read_to_string("words.txt").unwrap().lines().map(|s|s.to_string()).collect();
    let mut maxr=0f64; let mut maxcase=(String::new(),String::new(),0u64); let mut n=0u64; let mut hist=[0u64;12]; let mut tot=0u64;
    let t=std::time::Instant::now();
    for r in &rules { for w in &words {
        verif::set_budget(50_000_000);
        let rg=[RuleGroup::from_rules(vec![r.clone()])];
        let res=std::panic::catch_unwind(||{ let _=run(&rg,&[w.clone()],&[],&[]); });
        let tk=verif::ticks(); n+=1; tot+=tk;
        if res.is_err(){ continue }
        let size=((w.chars().count()+1)*(r.chars().count()+1)) as f64;
        let ratio=tk as f64/size; let b=((ratio*100.0).max(1.0)).log2() as usize; hist[b.min(11)]+=1;
        if ratio>maxr { maxr=ratio; maxcase=(r.clone(),w.clone(),tk); }
    }}
    println!("cases={} total_ticks={} max_ratio={:.3} at {:?} elapsed={:?}",n,tot,maxr,maxcase,t.elapsed());
    println!("hist(log2(100*ratio))={:?}",hist);
    // known hangs
    for (r,w) in [("$ > $","pa.ta"),("V > [+nasal] / _ ( ,0) [+nasal]","pa.sa.ta.fa"),("* > e / _ | #_","'la.hi.sa"),("* > e$ / $_","ˈse.sir"),("* > s / _ | _C#","'ra.ka.sa"),("* > <han>:[tone:51] / _%#","a.na.ti"),("{ɐ,$ə} > e / _,i","'fes.ta")] {
        verif::set_budget(200_000); verif::reset_sites();
        let rg=[RuleGroup::from_rules(vec![r.to_string()])];
        let res=std::panic::catch_unwind(||{ run(&rg,&[w.to_string()],&[],&[]).is_ok() });
        let hits=verif::site_hits(); let mut top:Vec<(usize,u64)>=hits.iter().cloned().enumerate().filter(|x|x.1>0).collect(); top.sort_by(|a,b|b.1.cmp(&a.1)); top.truncate(4);
        println!("{:?} on {:?}: {:?} ticks={} top_sites={:?}",r,w,res.map_err(|e| e.downcast_ref::<String>().cloned().unwrap_or_default()),verif::ticks(),top);
    }
}
