use asca::{run, RuleGroup, ASCAError};
fn main() {
    let args: Vec<String> = std::env::args().skip(1).collect();
    // usage: scr RULE... -- WORD...
    let mut rules = vec![]; let mut words = vec![]; let mut w=false;
    for a in args { if a=="--" {w=true; continue;} if w {words.push(a)} else {rules.push(a)} }
    let rg = vec![RuleGroup::from_rules(rules)];
    match run(&rg, &words, &[], &[]) {
        Ok(r) => println!("OK {:?}", r),
        Err(e) => println!("ERR {}", e.get_error_message()),
    }
}
