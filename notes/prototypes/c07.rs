use asca::{verif, RuleGroup};
use std::collections::BTreeMap;
struct Rng(u64);
impl Rng { fn next(&mut self)->u64{ self.0 ^= self.0<<13; self.0 ^= self.0>>7; self.0 ^= self.0<<17; self.0 } fn below(&mut self,n:usize)->usize{ (self.next()%(n as u64)) as usize } fn pick<'a>(&mut self,v:&'a [&'a str])->&'a str{ v[self.below(v.len())] } }
fn main(){
    std::panic::set_hook(Box::new(|_|{}));
    let words:Vec<String>=std::fs::read_to_string("words.txt").unwrap().lines().map(|s|s.to_string()).collect();
    let n:usize=std::env::args().nth(1).unwrap().parse().unwrap(); let mut rng=Rng(0x2545F4914F6CDD1D);
    let xs=["[]","V","C","[+voice]","[-cont]","O","N","V:[+long]","C:[-long]","[+stress]","%","%:[+stress]","<CV>","<..V>","<C..>","<...>"];
    let envs=["","/ _#","/ #_","/ V_V","/ _$","/ $_","/ _C","| _s","/ _%","/ V(C,0:2)_","| #_#"];
    let feats=["cons","son","syll","cont","approx","lat","nasal","delrel","strid","rho","click","voice","sg","cg","labdent","round","ant","dist","front","back","hi","lo","tense","red","atr","rtr","long","overlong","stress","sec.stress","PLACE","LAB","COR","DOR","PHR","LAR","MAN","RUT"];
    let mut stats:BTreeMap<&str,(u64,u64,u64,u64)>=BTreeMap::new(); let mut ex:BTreeMap<String,(u64,String)>=BTreeMap::new();
    for it in 0..n {
        let (class,rule)= match it%3 { 0=>{ let k=1+rng.below(3); let mut l=vec![]; let mut r=vec![]; for i in 0..k { l.push(format!("{}={}",rng.pick(&xs),i+1)); r.push(format!("{}",i+1)); } ("var-identity",format!("{} > {} {}",l.join(" "),r.join(" "),rng.pick(&envs))) },
            1=>{ let f=rng.pick(&feats); let el=rng.pick(&["","V:","C:","a:"]); let elx= if el.is_empty(){"".to_string()} else {el.to_string()};
                 ("alpha-identity", if elx.is_empty(){format!("[A{f}] > [A{f}] {}",rng.pick(&envs))} else {format!("{elx}[A{f}] > [A{f}] {}",rng.pick(&envs))}) },
            _=>{ let f=rng.pick(&["stress","sec.stress"]); ("syll-alpha-identity",format!("%:[A{f}] > [A{f}] {}",rng.pick(&envs))) } };
        let parsed=std::panic::catch_unwind(||verif::parse_rules(&[RuleGroup::from_rules(vec![rule.clone()])]));
        let Ok(Ok(pr))=parsed else { let e=stats.entry(class).or_insert((0,0,0,0)); e.3+=1; continue };
        for _ in 0..6 { let wt=&words[rng.below(words.len())]; let Ok(w)=verif::parse_word(wt,&[]) else {continue}; if w.syllables.is_empty(){continue}
            verif::set_budget(500_000); let e=stats.entry(class).or_insert((0,0,0,0));
            match std::panic::catch_unwind(std::panic::AssertUnwindSafe(||verif::apply_structural(&pr,&w))) {
                Err(_)=>{ e.3+=1; let en=ex.entry(format!("PANIC {class} | {rule}")).or_insert((0,String::new())); en.0+=1; if en.1.is_empty(){en.1=wt.clone();} },
                Ok(Err(_))=>{ e.1+=1 },
                Ok(Ok(st))=>{ e.0+=1; if st[0]!=w { e.2+=1; let en=ex.entry(format!("{class} | {rule}")).or_insert((0,String::new())); en.0+=1; if en.1.is_empty(){en.1=format!("{wt} -> {}",verif::render_word(&st[0],&[]).unwrap());} } } }
        }
    }
    println!("(ok,err,changed,panic) {stats:?}"); for (k,(c,e)) in ex.iter().filter(|x|!x.0.starts_with("PANIC")).take(70) { println!("{c:5} {k}   e.g. {e}"); }
}
