use asca::{verif, RuleGroup, Segment};
use std::collections::BTreeMap;
struct Rng(u64);
impl Rng { fn next(&mut self)->u64{ self.0 ^= self.0<<13; self.0 ^= self.0>>7; self.0 ^= self.0<<17; self.0 } fn below(&mut self,n:usize)->usize{ (self.next()%(n as u64)) as usize } }
fn seg_ok(s:&Segment)->Option<&'static str>{
    if s.root>7 {return Some("root bits")} if s.laryngeal>7 {return Some("laryngeal bits")}
    if let Some(p)=*s.place { if p==0 {return Some("place Some(0)")}
        if p&0x8000==0 && p&0x0c00!=0 {return Some("labial payload w/o node")}
        if p&0x4000==0 && p&0x0300!=0 {return Some("coronal payload w/o node")}
        if p&0x2000==0 && p&0x00fc!=0 {return Some("dorsal payload w/o node")}
        if p&0x1000==0 && p&0x0003!=0 {return Some("phar payload w/o node")}
        if p&0xf000==0 {return Some("place Some without any node")} }
    None }
fn inv(w:&verif::Word)->Option<String>{
    if w.syllables.is_empty(){return Some("no syllables".into())}
    for sy in &w.syllables { if sy.segments.is_empty(){return Some("empty syllable".into())}
        let t=sy.tone; if t>9999 {return Some("tone>4 digits".into())} if t!=0 && t.to_string().contains('0'){return Some("tone has 0 digit".into())}
        for s in &sy.segments { if let Some(e)=seg_ok(s){return Some(e.into())} } }
    None }
fn main(){
    std::panic::set_hook(Box::new(|_|{}));
    let rules:Vec<String>=std::fs::read_to_string("rules.txt").unwrap().lines().map(|s|s.to_string()).collect();
    let words:Vec<String>=std::fs::read_to_string("words.txt").unwrap().lines().map(|s|s.to_string()).collect();
    let n:usize=std::env::args().nth(1).unwrap().parse().unwrap();
    let mut rng=Rng(0x9E3779B97F4A7C15 ^ std::env::args().nth(2).unwrap().parse::<u64>().unwrap());
    let mut viol:BTreeMap<String,(u64,String)>=BTreeMap::new(); let (mut evals,mut oks,mut aborted,mut changed)=(0u64,0u64,0u64,0u64);
    // C06-ish: planted literal
    let mut c06=(0u64,0u64,0u64); let mut c06ex=vec![];
    for _ in 0..n {
        let k=1+rng.below(3); let rs:Vec<String>=(0..k).map(|_|rules[rng.below(rules.len())].clone()).collect();
        let groups:Vec<RuleGroup>=rs.iter().map(|r|RuleGroup::from_rules(vec![r.clone()])).collect();
        let Ok(Ok(pr))=std::panic::catch_unwind(||verif::parse_rules(&groups)) else {continue};
        for _ in 0..8 { let wt=&words[rng.below(words.len())];
            let Ok(w)=verif::parse_word(wt,&[]) else {continue}; if w.syllables.is_empty(){continue}
            evals+=1; verif::set_budget(300_000);
            match std::panic::catch_unwind(std::panic::AssertUnwindSafe(||verif::apply_structural(&pr,&w))) {
                Err(_)=>{aborted+=1}, Ok(Err(_))=>{},
                Ok(Ok(steps))=>{ oks+=1; if steps.last().unwrap()!=&w {changed+=1}
                    for (gi,st) in steps.iter().enumerate(){ if let Some(e)=inv(st){ let en=viol.entry(e).or_insert((0,String::new())); en.0+=1; if en.1.is_empty()||rs[gi].len()<20 && en.1.len()>60 {en.1=format!("rules={:?} group={} word={} -> {}",rs,gi,wt,verif::render_word(st,&[]).unwrap());} break; } } } }
        }
        // planted-literal variant of a single rule: prefix input with ɮ (only when rule is not insertion)
        let r=&rules[rng.below(rules.len())]; 
        if let Some((inp,rest))=r.split_once('>') { if !inp.trim().starts_with('*') && !inp.contains(',') && !inp.contains('=') {
            let planted=format!("ɮ {} > {}", inp, rest.replacen('&',"&",1));
            // outputs must get an extra element for substitution: keep simple -> only deletion/metathesis keep shape; for substitution prepend ɮ to output too
            let planted = if rest.trim_start().starts_with('*')||rest.trim_start().starts_with('&') {planted} else {format!("ɮ {} > ɮ {}",inp,rest)};
            if let Ok(Ok(pr))=std::panic::catch_unwind(||verif::parse_rules(&[RuleGroup::from_rules(vec![planted.clone()])])) {
                for _ in 0..8 { let wt=&words[rng.below(words.len())]; let Ok(w)=verif::parse_word(wt,&[]) else {continue}; if w.syllables.is_empty(){continue}
                    c06.0+=1; verif::set_budget(300_000);
                    if let Ok(Ok(st))=std::panic::catch_unwind(std::panic::AssertUnwindSafe(||verif::apply_structural(&pr,&w))) { c06.1+=1; if st[0]!=w { c06.2+=1; if c06ex.len()<8 {c06ex.push(format!("{planted:?} {wt} -> {}",verif::render_word(&st[0],&[]).unwrap()));} } } } } } }
    }
    println!("C08 evals={evals} ok={oks} changed={changed} aborted={aborted} violation_classes={}",viol.len());
    for (k,(c,ex)) in &viol { println!("  {c:6} {k}: {ex}"); }
    println!("C06 evals={} ok={} changed(unexpected)={} {:?}",c06.0,c06.1,c06.2,c06ex);
}
