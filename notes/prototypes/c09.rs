use asca::verif;
use std::collections::BTreeMap;
fn main(){
    std::panic::set_hook(Box::new(|_|{}));
    let card: BTreeMap<String, serde_json::Value> = serde_json::from_str(&std::fs::read_to_string("/repo/src/cardinals.json").unwrap()).unwrap();
    let dia: Vec<serde_json::Value> = serde_json::from_str(&std::fs::read_to_string("/repo/src/diacritics.json").unwrap()).unwrap();
    let ds:Vec<char>=dia.iter().map(|d|d["diacrit"].as_str().unwrap().chars().next().unwrap()).collect();
    let depth:usize=std::env::args().nth(1).unwrap().parse().unwrap();
    let t=std::time::Instant::now();
    let (mut parsed,mut norender,mut ok,mut bad_reparse,mut bad_neq)=(0u64,0u64,0u64,0u64,0u64);
    let mut classes:BTreeMap<String,(u64,String)>=BTreeMap::new();
    let mut texts:Vec<String>=vec![];
    for b in card.keys(){ texts.push(b.clone()); for d1 in &ds { let s1=format!("{b}{d1}"); texts.push(s1.clone()); if depth>=2 { for d2 in &ds { texts.push(format!("{s1}{d2}")); } } } }
    for txt in &texts {
        let Ok(Ok(w))=std::panic::catch_unwind(||verif::parse_word(txt,&[])) else {continue};
        if w.syllables.len()!=1 || w.syllables[0].segments.len()!=1 {continue}
        parsed+=1;
        let r=verif::render_word(&w,&[]).unwrap();
        if r.contains('�'){norender+=1; continue}
        match std::panic::catch_unwind(||verif::parse_word(&r,&[])) {
            Ok(Ok(w2)) => if w2==w {ok+=1} else {bad_neq+=1; let e=classes.entry(format!("NEQ")).or_insert((0,String::new())); e.0+=1; if e.1.is_empty(){e.1=format!("{txt} -> {r}");}},
            _ => { bad_reparse+=1;
                // class: rendered base char + each diacritic
                let base:String=r.chars().take_while(|c|!ds.contains(c)).collect(); let dd:String=r.chars().filter(|c|ds.contains(c)).collect();
                let e=classes.entry(format!("REPARSE-ERR base={base} dia={dd}")).or_insert((0,String::new())); e.0+=1; if e.1.is_empty(){e.1=format!("{txt} -> {r}");} }
        }
    }
    println!("texts={} parsed_single_seg={} unrenderable={} roundtrip_ok={} reparse_err={} reparse_neq={} classes={} elapsed={:?}",texts.len(),parsed,norender,ok,bad_reparse,bad_neq,classes.len(),t.elapsed());
    for (k,(n,ex)) in classes.iter().take(40){ println!("{n:6} {k}   e.g. {ex}"); }
}
