use asca::{run, RuleGroup};
use std::sync::{Arc, Mutex, mpsc};
use std::collections::BTreeMap;
use std::time::Duration;

struct Rng(u64);
impl Rng { fn next(&mut self)->u64{ self.0 ^= self.0<<13; self.0 ^= self.0>>7; self.0 ^= self.0<<17; self.0 } fn below(&mut self,n:usize)->usize{ (self.next()%(n as u64)) as usize } }

fn toks(s:&str)->Vec<String>{ // crude tokeniser: split into chars but keep bracketed features together
    let mut v=vec![]; let cs:Vec<char>=s.chars().collect(); let mut i=0;
    while i<cs.len(){ if cs[i]=='[' { let mut j=i; while j<cs.len() && cs[j]!=']' {j+=1}; let e=(j+1).min(cs.len()); v.push(cs[i..e].iter().collect()); i=e; } else { v.push(cs[i].to_string()); i+=1; } }
    v }

fn main(){
    let rules:Vec<String>=std::fs::read_to_string("rules.txt").unwrap().lines().map(|s|s.to_string()).collect();
    let words:Vec<String>=std::fs::read_to_string("words.txt").unwrap().lines().map(|s|s.to_string()).collect();
    let n:usize=std::env::args().nth(1).unwrap().parse().unwrap();
    let seed:u64=std::env::args().nth(2).unwrap().parse().unwrap();
    let mut rng=Rng(seed*2654435761+88172645463325252);
    let last:Arc<Mutex<Option<String>>>=Arc::new(Mutex::new(None));
    let l2=last.clone();
    std::panic::set_hook(Box::new(move |info|{ let loc=info.location().map(|l|format!("{}:{}",l.file(),l.line())).unwrap_or_default(); let msg= if let Some(s)=info.payload().downcast_ref::<&str>(){s.to_string()} else if let Some(s)=info.payload().downcast_ref::<String>(){s.clone()} else {"?".into()}; *l2.lock().unwrap()=Some(format!("{} | {}",loc,msg.chars().take(90).collect::<String>())); }));
    let alltoks:Vec<String>=rules.iter().flat_map(|r|toks(r)).collect();
    let mut sites:BTreeMap<String,(usize,String,String)>=BTreeMap::new();
    let mut hangs=vec![];
    let mut ok=0; let mut err=0;
    for it in 0..n {
        let base=rules[rng.below(rules.len())].clone();
        let mut t=toks(&base);
        let k=rng.below(4); // 0 = unmutated
        for _ in 0..k { if t.is_empty(){break} match rng.below(4){ 0=>{let i=rng.below(t.len()); t.remove(i);}, 1=>{let i=rng.below(t.len()+1); t.insert(i, alltoks[rng.below(alltoks.len())].clone());}, 2=>{let i=rng.below(t.len()); t[i]=alltoks[rng.below(alltoks.len())].clone();}, _=>{ let i=rng.below(t.len()); let j=rng.below(t.len()); t.swap(i,j);} } }
        let rule:String=t.concat();
        let word=words[rng.below(words.len())].clone();
        let (tx,rx)=mpsc::channel();
        let r2=rule.clone(); let w2=word.clone();
        let h=std::thread::spawn(move||{ let res=std::panic::catch_unwind(||{ run(&[RuleGroup::from_rules(vec![r2])], &[w2], &[], &[]).is_ok() }); let _=tx.send(res.map_err(|_|())); });
        match rx.recv_timeout(Duration::from_millis(1500)) {
            Ok(Ok(true))=>ok+=1, Ok(Ok(false))=>err+=1,
            Ok(Err(()))=>{ let s=last.lock().unwrap().take().unwrap_or_default(); let e=sites.entry(s).or_insert((0,rule.clone(),word.clone())); e.0+=1; if rule.len()<e.1.len(){e.1=rule.clone(); e.2=word.clone();} },
            Err(_)=>{ hangs.push((rule.clone(),word.clone())); if hangs.len()>40 {break} std::mem::forget(h); }
        }
        if it%5000==0 { eprintln!("{} ok={} err={} sites={} hangs={}", it, ok, err, sites.len(), hangs.len()); }
    }
    println!("ok={} err={}",ok,err);
    for (s,(c,r,w)) in &sites { println!("PANIC x{} {}\n      rule={:?} word={:?}",c,s,r,w); }
    for (r,w) in hangs.iter().take(40) { println!("HANG rule={:?} word={:?}",r,w); }
    std::process::exit(0);
}
