//! Verification hooks (feature `verif`). Not part of the public API.
use std::cell::{Cell, RefCell};
use crate::{alias::{lexer::AliasLexer, parser::AliasParser, AliasKind, Transformation}, normalise, parse_rule_groups, rule::Rule, Error, RuleGroup};
pub use crate::word::Word;
pub use crate::syll::{Syllable, StressKind};

pub const N_SITES: usize = 256;
thread_local! {
    static TICKS: Cell<u64> = const { Cell::new(0) };
    static BUDGET: Cell<u64> = const { Cell::new(u64::MAX) };
    static SITES: RefCell<[u64; N_SITES]> = const { RefCell::new([0; N_SITES]) };
}
#[inline]
pub fn tick(site: u16) {
    let t = TICKS.with(|c| { let v = c.get() + 1; c.set(v); v });
    SITES.with(|s| s.borrow_mut()[site as usize % N_SITES] += 1);
    if t > BUDGET.with(|b| b.get()) {
        BUDGET.with(|b| b.set(u64::MAX));
        panic!("VERIF_BUDGET site={site}");
    }
}
pub fn set_budget(n: u64) { BUDGET.with(|b| b.set(n)); TICKS.with(|c| c.set(0)); }
pub fn ticks() -> u64 { TICKS.with(|c| c.get()) }
pub fn reset_sites() { SITES.with(|s| *s.borrow_mut() = [0; N_SITES]); }
pub fn site_hits() -> [u64; N_SITES] { SITES.with(|s| *s.borrow()) }

pub struct ParsedRules(Vec<Vec<Rule>>);

fn parse_aliases(kind: AliasKind, lines: &[String]) -> Result<Vec<Transformation>, Error> {
    let mut v = Vec::new();
    for (line, alias) in lines.iter().enumerate() {
        v.extend(AliasParser::new(kind, AliasLexer::new(kind, &alias.chars().collect::<Vec<_>>(), line).get_line()?, line).parse()?);
    }
    Ok(v)
}
pub fn parse_word(text: &str, into: &[String]) -> Result<Word, Error> {
    let a = parse_aliases(AliasKind::Deromaniser, into)?;
    Word::new(normalise(text), &a)
}
pub fn render_word(w: &Word, from: &[String]) -> Result<String, Error> {
    let a = parse_aliases(AliasKind::Romaniser, from)?;
    Ok(w.render(&a))
}
pub fn parse_rules(groups: &[RuleGroup]) -> Result<ParsedRules, Error> { Ok(ParsedRules(parse_rule_groups(groups)?)) }
/// The word after every rule group, exactly as `apply_rule_groups` threads it.
pub fn apply_structural(rules: &ParsedRules, word: &Word) -> Result<Vec<Word>, Error> {
    let mut out = Vec::with_capacity(rules.0.len());
    let mut w = word.clone();
    for g in &rules.0 { for r in g { w = r.apply(w)?; } out.push(w.clone()); }
    Ok(out)
}
pub fn table_order_fingerprint() -> u64 {
    let mut h: u64 = 0xcbf29ce484222325;
    for k in crate::CARDINALS_MAP.keys() { // iteration order of the map itself (stays process-dependent after the ordering fix) for b in k.bytes() { h ^= b as u64; h = h.wrapping_mul(0x100000001b3); } h ^= 0xff; h = h.wrapping_mul(0x100000001b3); }
    h
}
